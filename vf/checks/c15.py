"""C15 - C-STORE delivers the data set intact end-to-end; stored files are never clobbered (loopback)."""
from __future__ import annotations

import hashlib
import io
import os
import warnings

from hypothesis import strategies as st

from .. import loopback as lb, svc
from ..common import Violation, HarnessError, hyp_search, parallel, lib_frame, quiet_warnings

LEVEL = 'exploration'
PROP = 'C15'
TSS = [svc.IMPLICIT, svc.EXPLICIT, svc.BIG]
SOPS = [svc.SC_STORAGE, svc.CT_STORAGE, '1.2.840.10008.5.1.4.1.1.88.11']
MAXES = [128, 1024, 4096, 16384, 65536, 262144]
CASE_LIMIT = 60.0

text = st.text('ABCDEFGHIJKLMNOPQRSTUVWXYZabcdefghij0123456789 ^', min_size=0, max_size=24).map(lambda s: s.strip())
uid_st = st.integers(1, 10 ** 12).map(lambda n: '1.2.826.0.1.3680043.9.15.%d' % n)


@st.composite
def seq_items(draw, depth):
    items = []
    for _ in range(draw(st.integers(0, 2))):
        it = {'ReferencedSOPClassUID': draw(st.sampled_from(SOPS)), 'ReferencedSOPInstanceUID': draw(uid_st)}
        if draw(st.booleans()):
            it['PatientID'] = draw(text)
        if depth < 3 and draw(st.booleans()):
            it['ReferencedSeriesSequence'] = draw(seq_items(depth + 1))
        items.append(it)
    return items


@st.composite
def ds_spec(draw, max_bulk):
    d = {'SOPClassUID': draw(st.sampled_from(SOPS)), 'SOPInstanceUID': draw(uid_st)}
    if draw(st.booleans()):
        d['PatientName'] = draw(text)
    if draw(st.booleans()):
        d['PatientID'] = draw(text)
    if draw(st.booleans()):
        d['StudyInstanceUID'] = draw(uid_st)
    if draw(st.booleans()):
        d['Rows'] = draw(st.integers(0, 65535))
    if draw(st.booleans()):
        d['StudyDescription'] = draw(text)
    if draw(st.integers(0, 3)):
        n = draw(st.one_of(st.integers(0, 40), st.integers(0, max_bulk)))
        d['EncapsulatedDocument'] = {'len': n, 'salt': draw(st.integers(0, 255))}
    if draw(st.booleans()):
        n = 2 * draw(st.integers(0, max_bulk // 4))
        d['RedPaletteColorLookupTableData'] = {'len': n, 'salt': draw(st.integers(0, 255))}
    if draw(st.booleans()):
        d['ReferencedStudySequence'] = draw(seq_items(1))
    return d


def build_ds(spec):
    from pydicom.dataset import Dataset
    from pydicom.sequence import Sequence
    from ..dimsegen import patterned
    ds = Dataset()
    for k, v in spec.items():
        if isinstance(v, list):
            setattr(ds, k, Sequence([build_ds(i) for i in v]))
        elif isinstance(v, dict):
            setattr(ds, k, patterned(v['len'], v['salt']))
        else:
            setattr(ds, k, v)
    return ds


@st.composite
def case_strategy(draw):
    cmax = draw(st.sampled_from(MAXES))
    smax = draw(st.sampled_from(MAXES))
    frag = min(cmax, smax) - 6
    return {
        'ds': draw(ds_spec(max_bulk=min(30 * frag, 200000))),
        'ts': draw(st.integers(0, 2)), 'client_max': cmax, 'server_max': smax,
        'source': draw(st.sampled_from(['memory', 'file'])),
        'reception': draw(st.sampled_from(['tempfile', 'memory-file', 'directory', 'directory'])),
        'outcome': draw(st.sampled_from([['status', 0x0000], ['status', 0x0000], ['status', 0xB000], ['status', 0xB007],
                                         ['status', 0xA700], ['status', 0xC000], ['raise', 0]])),
        'repeat': draw(st.sampled_from([1, 1, 2, 3])),
        # pad the bulk element so that the encoded data set is an exact multiple of the fragment size (+delta)
        'align': draw(st.sampled_from([None, None, 0, 0, 1, -1])),
        # directory storage: a file for this instance UID is already there (stored by an earlier server run)
        'preexisting': draw(st.booleans()),
        # file source: every copy is written to the SAME path (replaced in place, same size, same modification
        # time) and is a different instance - what a sender sees when files are staged under a fixed name
        'reuse_path': draw(st.sampled_from([False, False, True])),
        # the sending thread first tried to store an object that cannot be encoded (value out of range for its
        # VR), got the error, and carries on: later stores are not affected by the failed one
        'prior_failure': draw(st.sampled_from([False, False, True])),
        # the storing entity also forwards what it receives: it was made a storage USER of the class before it
        # was made the provider (the order of the two configuration calls is the application's business)
        'scu_first': draw(st.sampled_from([False, False, True])),
        # file source whose file meta information lacks the Media Storage SOP Instance UID (written by sloppy
        # software; the library caters for it by looking into the data set)
        'meta_without_instance_uid': draw(st.sampled_from([False, False, True])),
        # ... or whose File Meta Information Group Length does not match the group (computed before padding, say):
        # readers find the end of group 0002 by looking at the tags, as pydicom and this library do
        'meta_group_length_off': draw(st.sampled_from([0, 0, 0, 2, -2, 18])),
    }


def run_case(case):
    """Returns (n data fragments estimate); raises Violation / lb.Inconclusive."""
    import pydicom
    import pynetdicom2
    from pynetdicom2 import applicationentity, sopclass, statuses, dimsemessages, exceptions
    ts = TSS[case['ts']]
    sop = case['ds']['SOPClassUID']
    rec = lb.Recorder()
    outcome = case['outcome']

    def handler(self, context, ds):
        content = ds.read()
        rec.add({'ctx': (context.id, str(context.sop_class), str(context.supported_ts)), 'content': content,
                 'name': getattr(ds, 'name', None), 'sha': hashlib.sha1(content).hexdigest()})
        if outcome[0] == 'raise':
            raise exceptions.EventHandlingError('scripted')
        return statuses.Status(outcome[1], dimsemessages.CStoreRSPMessage)

    with lb.tempdir() as tmp:
        if case['reception'] == 'directory':
            class Srv(pynetdicom2.StorageAE):
                on_receive_store = handler
            ae = Srv(tmp, 'SRV', 0, [ts], case['server_max'])
        else:
            class Srv(applicationentity.AE):
                on_receive_store = handler
            if case['reception'] == 'memory-file':
                def get_file(self, context, command_set):
                    fp = io.BytesIO()
                    start = fp.tell()
                    applicationentity.write_meta(fp, command_set, context.supported_ts)
                    return fp, start
                Srv.get_file = get_file
            ae = Srv('SRV', 0, [ts], case['server_max'])
        if case.get('scu_first'):
            ae.add_scu(sopclass.storage_scu, [sop])
        ae.add_scp(sopclass.storage_scp)
        old_name = os.path.join(tmp, '%s.dcm' % case['ds']['SOPInstanceUID'])
        old_content = b'stored by an earlier run of the server ' * 20
        if case.get('preexisting') and case['reception'] == 'directory':
            with open(old_name, 'wb') as fh:
                fh.write(old_content)
        sent = []
        frag = min(case['client_max'], case['server_max']) - 6
        for k in range(case['repeat']):
            ds = build_ds(case['ds'])
            ds.SeriesDescription = 'copy %d' % k          # same instance UID, different content
            if case.get('reuse_path') and len(str(ds.SOPInstanceUID)) <= 61:
                ds.SOPInstanceUID = '%s.%d' % (ds.SOPInstanceUID, k + 1)      # ... or distinct instances
            if case.get('align') is not None:
                from ..dimsegen import patterned
                ds.EncapsulatedDocument = b''
                base = len(svc.enc_ds(ds, ts))
                target = (base // frag + 2) * frag + case['align']
                pad = target - base
                pad -= pad % 2                              # OB values are padded to even length
                ds.EncapsulatedDocument = patterned(max(0, pad), k)
            sent.append(ds)
        got_status = []
        with lb.quiet_stderr() as err, lb.serving(ae) as port:
            client = applicationentity.ClientAE('CLI', [ts], case['client_max'])
            client.timeout = 6
            client.add_scu(sopclass.storage_scu, [sop])
            remote = {'aet': 'SRV', 'address': '127.0.0.1', 'port': port}

            def body():
                if case.get('prior_failure'):
                    try:
                        with client.request_association(remote) as assoc0:
                            bad = build_ds(case['ds'])
                            bad.PatientName = 'GHOST^PATIENT'
                            bad.SOPInstanceUID = '1.2.826.0.1.3680043.9.15.666'
                            bad.Rows = 70000
                            assoc0.get_scu(sop)(bad, 99)
                    except Exception:
                        pass        # (the failure itself is the application's to handle)
                with client.request_association(remote) as assoc:
                    service = assoc.get_scu(sop)
                    for k, ds in enumerate(sent):
                        if case['source'] == 'file':
                            path = os.path.join(tmp, 'src_%d.dcm' % (0 if case.get('reuse_path') else k))
                            fm = pydicom.dataset.FileMetaDataset()
                            fm.MediaStorageSOPClassUID = sop
                            fm.MediaStorageSOPInstanceUID = ds.SOPInstanceUID
                            fm.TransferSyntaxUID = ts
                            fds = pydicom.dataset.FileDataset(path, ds, file_meta=fm, preamble=b'\0' * 128)
                            fds.is_implicit_VR = ts == svc.IMPLICIT
                            fds.is_little_endian = ts != svc.BIG
                            if case.get('meta_without_instance_uid'):
                                fds.save_as(path, write_like_original=False)
                                full = pydicom.dcmread(path)
                                del full.file_meta.MediaStorageSOPInstanceUID
                                full.file_meta.FileMetaInformationGroupLength = 0
                                full.save_as(path, write_like_original=True)
                            else:
                                fds.save_as(path, write_like_original=False)
                            if case.get('reuse_path'):
                                os.utime(path, (1600000000, 1600000000))
                            off = case.get('meta_group_length_off') or 0
                            if off:
                                import struct
                                with open(path, 'r+b') as fh:
                                    fh.seek(132)
                                    head = fh.read(12)
                                    if head[:6] == b'\x02\x00\x00\x00UL':
                                        fh.seek(140)
                                        fh.write(struct.pack('<I', max(0, struct.unpack('<I', head[8:12])[0] + off)))
                            arg = path
                        else:
                            arg = ds
                        got_status.append(service(arg, k + 1))
            try:
                lb.run_with_limit(body, CASE_LIMIT)
            except lb.Inconclusive:
                raise
            except exceptions.DCMTimeoutError:
                raise lb.Inconclusive('library time-out')
            except Exception as exc:
                raise Violation('%s:exception:%s' % (PROP, lib_frame(exc)),
                                'storing raised %r; server side: %s' % (exc, err.getvalue()[-300:]), case)
            lb.wait_until(lambda: len(rec.snapshot()) >= case['repeat'], 2.0)
        items = rec.snapshot()
        want_status = 0xC000 if outcome[0] == 'raise' else outcome[1]
        if [int(s) for s in got_status] != [want_status] * case['repeat']:
            raise Violation('%s:status' % PROP, 'handler outcome %r, sender got statuses %r'
                            % (outcome, ['%04X' % int(s) for s in got_status]), case)
        if len(items) != case['repeat']:
            raise Violation('%s:handler-calls' % PROP, '%d stores, handler called %d times' % (case['repeat'], len(items)), case)
        for k, (it, ds) in enumerate(zip(items, sent)):
            if it['ctx'][1] != sop or it['ctx'][2] != ts:
                raise Violation('%s:context' % PROP, 'handler context %r, sent class %s in %s' % (it['ctx'], sop, ts), case)
            try:
                got = pydicom.dcmread(io.BytesIO(it['content']))
            except Exception as exc:
                raise Violation('%s:unreadable' % PROP, 'what the handler received is not a readable DICOM file: %r' % (exc,), case)
            fm = got.file_meta
            if str(fm.MediaStorageSOPInstanceUID) != str(ds.SOPInstanceUID) or str(fm.MediaStorageSOPClassUID) != sop \
                    or str(fm.TransferSyntaxUID) != ts:
                raise Violation('%s:meta' % PROP, 'file meta (%s, %s, %s) differs from what was sent'
                                % (fm.MediaStorageSOPClassUID, fm.MediaStorageSOPInstanceUID, fm.TransferSyntaxUID), case)
            got_ds = pydicom.dataset.Dataset({key: v for key, v in got.items()})
            if not svc.ds_equal(got_ds, ds):
                raise Violation('%s:content' % PROP, 'store %d: data set handed to the application differs from the one sent'
                                % (k + 1), case)
        if case['reception'] == 'directory':
            files = sorted(f for f in os.listdir(tmp) if not f.startswith('src_'))
            if case.get('preexisting'):
                if not os.path.exists(old_name) or open(old_name, 'rb').read() != old_content:
                    raise Violation('%s:directory:clobbered-earlier-file' % PROP, 'a file stored before this server started was '
                                    'overwritten or removed', case)
                files.remove(os.path.basename(old_name))
            if len(files) != case['repeat']:
                raise Violation('%s:directory:file-count' % PROP, '%d instances stored, %d files in the directory: %r'
                                % (case['repeat'], len(files), files), case)
            hashes = sorted(hashlib.sha1(open(os.path.join(tmp, f), 'rb').read()).hexdigest() for f in files)
            if hashes != sorted(it['sha'] for it in items):
                raise Violation('%s:directory:clobbered' % PROP, 'stored files no longer match what was written when each '
                                'instance arrived (a file was overwritten or truncated)', case)
            for f in files:
                try:
                    pydicom.dcmread(os.path.join(tmp, f))
                except Exception as exc:
                    raise Violation('%s:directory:unreadable' % PROP, 'stored file %s unreadable: %r' % (f, exc), case)
    bulk = sum(v['len'] for v in case['ds'].values() if isinstance(v, dict))
    return bulk // max(1, min(case['client_max'], case['server_max']) - 6)


FIXED = [
    {'ds': {'SOPClassUID': svc.SC_STORAGE, 'SOPInstanceUID': '1.2.826.0.1.3680043.9.15.1', 'PatientName': 'Dup^One',
            'EncapsulatedDocument': {'len': 301, 'salt': 3}},
     'ts': 0, 'client_max': 16384, 'server_max': 128, 'source': 'memory', 'reception': 'directory',
     'outcome': ['status', 0], 'repeat': 3, 'align': None, 'preexisting': True},
    {'ds': {'SOPClassUID': svc.CT_STORAGE, 'SOPInstanceUID': '1.2.826.0.1.3680043.9.15.2', 'PatientID': 'odd',
            'RedPaletteColorLookupTableData': {'len': 3000, 'salt': 9},
            'ReferencedStudySequence': [{'ReferencedSOPClassUID': svc.CT_STORAGE, 'ReferencedSOPInstanceUID': '1.2.3',
                                         'ReferencedSeriesSequence': [{'ReferencedSOPClassUID': svc.SC_STORAGE,
                                                                       'ReferencedSOPInstanceUID': '1.2.4'}]}]},
     'ts': 2, 'client_max': 128, 'server_max': 65536, 'source': 'file', 'reception': 'tempfile',
     'outcome': ['raise', 0], 'repeat': 1, 'align': 0},
    {'ds': {'SOPClassUID': svc.SC_STORAGE, 'SOPInstanceUID': '1.2.826.0.1.3680043.9.15.3', 'StudyDescription': 'x'},
     'ts': 1, 'client_max': 1024, 'server_max': 4096, 'source': 'file', 'reception': 'memory-file',
     'outcome': ['status', 0xB000], 'repeat': 2, 'align': 0},
    # three different instances staged one after the other under one file name
    {'ds': {'SOPClassUID': svc.SC_STORAGE, 'SOPInstanceUID': '1.2.826.0.1.3680043.9.15.6', 'PatientName': 'Same^Path',
            'EncapsulatedDocument': {'len': 700, 'salt': 8}},
     'ts': 1, 'client_max': 4096, 'server_max': 4096, 'source': 'file', 'reception': 'directory',
     'outcome': ['status', 0], 'repeat': 3, 'align': None, 'reuse_path': True},
    {'ds': {'SOPClassUID': svc.CT_STORAGE, 'SOPInstanceUID': '1.2.826.0.1.3680043.9.15.7', 'PatientName': 'After^Failure',
            'PatientID': 'p7', 'EncapsulatedDocument': {'len': 500, 'salt': 4}},
     'ts': 1, 'client_max': 16384, 'server_max': 16384, 'source': 'memory', 'reception': 'tempfile',
     'outcome': ['status', 0], 'repeat': 2, 'align': None, 'prior_failure': True, 'scu_first': True},
    {'ds': {'SOPClassUID': svc.SC_STORAGE, 'SOPInstanceUID': '1.2.826.0.1.3680043.9.15.8', 'PatientName': 'No^MetaUid',
            'StudyDescription': 'structured report, no pixel data'},
     'ts': 1, 'client_max': 16384, 'server_max': 16384, 'source': 'file', 'reception': 'tempfile',
     'outcome': ['status', 0], 'repeat': 2, 'align': None, 'meta_without_instance_uid': True},
    {'ds': {'SOPClassUID': svc.CT_STORAGE, 'SOPInstanceUID': '1.2.826.0.1.3680043.9.15.9', 'PatientName': 'Group^Length',
            'PatientID': 'gl', 'EncapsulatedDocument': {'len': 333, 'salt': 2}},
     'ts': 0, 'client_max': 16384, 'server_max': 16384, 'source': 'file', 'reception': 'tempfile',
     'outcome': ['status', 0], 'repeat': 2, 'align': None, 'meta_group_length_off': -2},
    # PDUs far larger than what one TCP read delivers on loopback
    {'ds': {'SOPClassUID': svc.CT_STORAGE, 'SOPInstanceUID': '1.2.826.0.1.3680043.9.15.4', 'PatientName': 'Big^Pdu',
            'EncapsulatedDocument': {'len': 1500001, 'salt': 5}},
     'ts': 1, 'client_max': 1048576, 'server_max': 1048576, 'source': 'memory', 'reception': 'tempfile',
     'outcome': ['status', 0], 'repeat': 1, 'align': None},
    {'ds': {'SOPClassUID': svc.SC_STORAGE, 'SOPInstanceUID': '1.2.826.0.1.3680043.9.15.5',
            'EncapsulatedDocument': {'len': 900000, 'salt': 6}},
     'ts': 0, 'client_max': 262144, 'server_max': 4194304, 'source': 'file', 'reception': 'directory',
     'outcome': ['status', 0xB000], 'repeat': 1, 'align': None},
]


def one(ctx, case, label):
    try:
        nfrag = run_case(case)
    except Violation as first:
        # real sockets, real threads, real time: on a machine under heavy load an association can be lost to a time-out
        # that has nothing to do with the case.  What the library does with a given case is deterministic: a violation
        # counts only if the very same case shows the very same violation twice more.
        for _ in range(2):
            try:
                run_case(case)
            except Violation as again:
                if again.key == first.key:
                    continue
            except lb.Inconclusive:
                pass
            ctx.inconclusive += 1
            ctx.label('inconclusive')
            ctx.label('not-reproduced:' + first.key.split(':')[1])
            return
        raise first
    except lb.Inconclusive as inc:
        # a time-out may be environmental - or the symptom of a lost fragment.  Run the very same case twice
        # more: only a time-out that reproduces every time is reported.
        again = 0
        for _ in range(2):
            try:
                nfrag = run_case(case)
                break
            except lb.Inconclusive:
                again += 1
        if again == 2:
            raise Violation('%s:timeout-reproducible' % PROP, 'storing never completes (3 of 3 attempts timed out): %s' % inc, case)
        ctx.inconclusive += 1
        ctx.label('inconclusive')
        if again:
            return
    ctx.case(case, nfrag >= 2 or case['repeat'] > 1 or case.get('align') is not None,
             labels=[label, 'ts=%d' % case['ts']] + (['after-failed-store'] if case.get('prior_failure') else []) + (['file-meta-without-instance-uid'] if case.get('meta_without_instance_uid') and case['source'] == 'file' else []) + [ 'src=' + case['source'] + ('-same-path' if case.get('reuse_path') and case['source'] == 'file' and case['repeat'] > 1 else ''), 'recv=' + case['reception'], 'align=%s' % case.get('align'),
                     'repeat=%d' % case['repeat'], 'multi-fragment' if nfrag >= 2 else 'small'],
             sample={k: (v if k != 'ds' else {kk: (vv if not isinstance(vv, list) else '<%d items>' % len(vv))
                                                for kk, vv in v.items()}) for k, v in case.items()})


def shard(ctx, job):
    quiet_warnings()
    for case in job.get('fixed', []):
        try:
            one(ctx, case, 'fixed')
        except Violation as v:
            ctx.fail(v.key, v.what, v.case)

    def fn(case):
        one(ctx, case, 'generated')
    hyp_search(ctx, case_strategy(), fn, job['n'], name='C15', shrink=job['shrink'], max_buckets=3, realtime=True)


def run(ctx):
    quiet_warnings()
    ctx.rule = ('Hypothesis-generated data sets (PN/LO/UI/US/OB/OW elements incl. odd lengths, nested sequences to depth '
                '3, bulk data up to ~30 fragments) x 3 transfer syntaxes (each proposed alone) x asymmetric pairs of '
                'maximum PDU lengths from {128..262144} (fixed cases up to 4 MiB with MB-sized data sets) x Dataset-in-memory or Part-10 file source x temp-file / '
                'in-memory-file / directory reception x handler statuses success/warning/failure/EventHandlingError x '
                '1-3 stores of the same instance UID with different content; whole stack over real loopback TCP with '
                'real threads; plus 5 fixed cases; non-trivial = >=2 data fragments or a repeated UID')
    ctx.assumptions = ['schedules are whatever the OS produces (sampled, not enumerated); a library time-out or a case '
                       'exceeding %d s is inconclusive unless it reproduces in 3 of 3 attempts; every other violation must reproduce in 3 of 3 attempts of the same case as well' % CASE_LIMIT,
                       'data sets compared by canonical re-encoding (explicit VR little endian) with pydicom']
    if ctx.thorough:
        jobs = [{'n': 60, 'shrink': True, 'fixed': FIXED if i == 0 else []} for i in range(16)]
    else:
        jobs = [{'n': 10, 'shrink': False, 'fixed': [FIXED[i]] if i < len(FIXED) else []} for i in range(12)]
    parallel(ctx, shard, jobs)


def replay(case):
    quiet_warnings()
    try:
        run_case(case)
    except lb.Inconclusive as inc:
        print('inconclusive: %s' % inc)
