"""Hypothesis strategies producing plain-data PDU specs (see refpdu), plus the bridge between
specs and pynetdicom2 objects: build(spec) uses only the public constructors, extract(obj)
reads only public attributes."""
from __future__ import annotations

import string

from hypothesis import strategies as st

SUB_KINDS = [0x51, 0x52, 0x53, 0x54, 0x55, 0x56, 0x58, 0x59, 'generic']
KNOWN_SUB_TYPES = {0x51, 0x52, 0x53, 0x54, 0x55, 0x56, 0x58, 0x59}

AE_CHARS = ''.join(chr(c) for c in range(0x20, 0x7F) if chr(c) != '\\')
UID_CHARS = '0123456789.'


def ints(maxv):
    return st.one_of(st.sampled_from([0, 1, maxv // 2, maxv]), st.integers(0, maxv))


u8, u16, u32 = ints(0xFF), ints(0xFFFF), ints(0xFFFFFFFF)

ae_title = st.text(AE_CHARS, min_size=0, max_size=16)
# well-known UIDs, and values that are textual extensions / truncations of them (a prefix test is not an equality test)
WELL_KNOWN = ['1.2.840.10008.3.1.1.1', '1.2.840.10008.1.1', '1.2.840.10008.1.2', '1.2.840.10008.1.2.1', '1.2.840.10008.1.2.2',
              '1.2.840.10008.5.1.4.1.1.2', '1.2.840.10008.1.20.1', '1.2.840.10008.1.20.1.1']
_NEAR = [w + x for w in WELL_KNOWN for x in ('', '0', '.1', '.1.2')] + [w[:-1] for w in WELL_KNOWN] + [w[:-2] for w in WELL_KNOWN]
_plain_uid = st.text(UID_CHARS, min_size=0, max_size=63)
uid = st.one_of(st.text(UID_CHARS, min_size=0, max_size=64), st.sampled_from(_NEAR),
                # a UID padded with one trailing NUL, as data-set encoders do and some peers also do here
                _plain_uid.map(lambda u: u + '\x00'), st.sampled_from(WELL_KNOWN).map(lambda u: u + '\x00'),
                st.sampled_from(['1.2.840.10008.1.1', '1.2.840.10008.1.2', '1' * 64, '', '1',
                                 '1.2.840.10008.5.1.4.1.1.2']))
ascii_name = st.text(string.ascii_letters + string.digits + ' _.-', min_size=0, max_size=16)
blob = st.binary(min_size=0, max_size=40)
_plain_utext = st.text(st.characters(blacklist_categories=('Cs',)), min_size=0, max_size=20)
# characters that codecs and text handling like to treat specially, at the positions where that matters
_SPECIAL = ['\ufeff', '\ufffe', '\x00', ' ', '\t', '\n', '\r\n', '\u200b', '\u2028', '\x7f', '\x1b', '\\', '\ufffd', '\U0001F600', 'e\u0301']
utext = st.one_of(_plain_utext, _plain_utext,
                  st.tuples(st.sampled_from(_SPECIAL), _plain_utext).map(lambda t: t[0] + t[1]),
                  st.tuples(_plain_utext, st.sampled_from(_SPECIAL)).map(lambda t: t[0] + t[1]),
                  st.tuples(_plain_utext, st.sampled_from(_SPECIAL), _plain_utext).map(lambda t: t[0] + t[1] + t[2]),
                  st.sampled_from(_SPECIAL))


BIG_FIELD = [32767, 32768, 40000, 60000]
big_text = st.sampled_from(BIG_FIELD).flatmap(lambda n: st.sampled_from('aZ9').map(lambda c: c * n))
big_blob = st.sampled_from(BIG_FIELD).flatmap(lambda n: st.binary(min_size=1, max_size=4).map(lambda b: (b * (n // len(b) + 1))[:n]))


def rarely(big, normal, one_in=25):
    return st.integers(0, one_in - 1).flatmap(lambda k: big if k == 0 else normal)


def generic_types(strict):
    # types the library has no class for; never 0 (0 terminates the library's item loop and is
    # not a legal item type).  `strict` = only codes a conformant peer could send (>= 51H).
    hi = [0x57] + list(range(0x5A, 0x100))
    if strict:
        return st.sampled_from(hi)
    return st.one_of(st.sampled_from(hi), st.sampled_from([0x57, 0x5A, 0xFF, 0x01, 0x10, 0x20,
                                                           0x21, 0x30, 0x40, 0x50]))


def sub_item(kind, strict=False):
    if kind == 0x51:
        return st.fixed_dictionaries({'t': st.just(0x51), 'r': u8, 'max': u32})
    if kind == 0x52:
        return st.fixed_dictionaries({'t': st.just(0x52), 'r': u8, 'uid': uid})
    if kind == 0x53:
        return st.fixed_dictionaries({'t': st.just(0x53), 'r': u8, 'inv': u16, 'perf': u16})
    if kind == 0x54:
        return st.fixed_dictionaries({'t': st.just(0x54), 'r': u8, 'uid': uid, 'scu': u8, 'scp': u8})
    if kind == 0x55:
        return st.fixed_dictionaries({'t': st.just(0x55), 'r': u8, 'name': ascii_name})
    if kind == 0x56:
        return st.fixed_dictionaries({'t': st.just(0x56), 'r': u8, 'uid': uid, 'info': rarely(big_blob, blob)})
    if kind == 0x58:
        return st.fixed_dictionaries({'t': st.just(0x58), 'r': u8, 'type': u8, 'rsp': u8,
                                      'prim': rarely(big_text, utext), 'sec': utext})
    if kind == 0x59:
        return st.fixed_dictionaries({'t': st.just(0x59), 'r': u8, 'resp': rarely(big_text, utext)})
    return st.fixed_dictionaries({'t': generic_types(strict), 'r': u8, 'data': rarely(big_blob, blob)})


def any_sub(strict=False):
    return st.sampled_from(SUB_KINDS).flatmap(lambda k: sub_item(k, strict))


def _field_bytes(s):
    return sum(len(v.encode('utf-8')) if isinstance(v, str) else len(v) for v in s.values() if isinstance(v, (str, bytes)))


def _fit(subs):
    """Keep the user-information item below its 16-bit length limit: drop sub-items once 64000 bytes are used."""
    out, used = [], 0
    for sub in subs:
        n = _field_bytes(sub) + 16
        if used + n > 64000:
            continue
        used += n
        out.append(sub)
    return out


def user_info(strict=False, max_subs=6):
    return st.fixed_dictionaries({'t': st.just(0x50), 'r': u8,
                                  'subs': st.lists(any_sub(strict), min_size=0, max_size=max_subs).map(_fit)})


app_ctx = st.fixed_dictionaries({'t': st.just(0x10), 'r': u8, 'name': uid})
syntax = st.fixed_dictionaries({'r': u8, 'name': uid})


def pc_rq(min_ts=0):
    return st.fixed_dictionaries({'t': st.just(0x20), 'r1': u8, 'id': u8, 'r2': u8, 'r3': u8,
                                  'r4': u8, 'abs': syntax,
                                  'ts': st.lists(syntax, min_size=min_ts, max_size=4)})


pc_ac = st.fixed_dictionaries({'t': st.just(0x21), 'r1': u8, 'id': u8, 'r2': u8, 'result': u8,
                               'r3': u8, 'ts': syntax})


@st.composite
def assoc_items(draw, kind, strict=False, free_order=True):
    """Variable items: <=1 application context, 0..n contexts of the PDU's kind, <=1 user info,
    in any order (free_order) or in the order the standard prescribes."""
    items = []
    has_app = draw(st.booleans()) or strict
    if has_app:
        items.append(draw(app_ctx))
    n = draw(st.integers(1 if strict else 0, 4))
    pcs = [draw(pc_rq(1 if strict else 0) if kind == 1 else pc_ac) for _ in range(n)]
    items.extend(pcs)
    if draw(st.booleans()) or strict:
        items.append(draw(user_info(strict)))
    if free_order and len(items) > 1:
        items = draw(st.permutations(items))
    return list(items)


def assoc_pdu(kind=None, strict=False, free_order=True):
    kinds = st.just(kind) if kind else st.sampled_from([1, 2])
    return kinds.flatmap(lambda k: st.fixed_dictionaries({
        't': st.just(k), 'r1': u8, 'ver': u16, 'r2': u16, 'called': ae_title, 'calling': ae_title,
        'r3': st.lists(u32, min_size=8, max_size=8),
        'items': assoc_items(k, strict, free_order)}))


rj_pdu = st.fixed_dictionaries({'t': st.just(3), 'r1': u8, 'r2': u8, 'result': u8, 'source': u8,
                                'reason': u8})
rel_pdu = st.fixed_dictionaries({'t': st.sampled_from([5, 6]), 'r1': u8, 'r2': u32})
abort_pdu = st.fixed_dictionaries({'t': st.just(7), 'r1': u8, 'r2': u8, 'r3': u8, 'source': u8,
                                   'reason': u8})

BIG_SIZES = [0, 1, 65534, 65535, 65536, 65537, 70000]


@st.composite
def payload(draw, allow_big=True):
    if allow_big and draw(st.integers(0, 9)) == 0:
        n = draw(st.sampled_from(BIG_SIZES))
        seedb = draw(st.binary(min_size=1, max_size=8))
        return (seedb * (n // len(seedb) + 1))[:n]
    return draw(st.binary(min_size=0, max_size=300))


def pdata_pdu(allow_big=True, min_pdvs=0):
    pdv = st.fixed_dictionaries({'id': u8, 'data': payload(allow_big)})
    return st.fixed_dictionaries({'t': st.just(4), 'r': u8,
                                  'pdvs': st.lists(pdv, min_size=min_pdvs, max_size=5)})


def any_pdu(strict=False, free_order=True, allow_big=True):
    return st.one_of(assoc_pdu(None, strict, free_order), assoc_pdu(None, strict, free_order),
                     rj_pdu, pdata_pdu(allow_big, 1 if strict else 0), rel_pdu, abort_pdu)


# ------------------------------------------------------------------------------------------
# spec <-> library objects

def build_sub(s):
    from pynetdicom2 import userdataitems as u
    t = s['t']
    if t == 0x51 and 'max' in s:
        return u.MaximumLengthSubItem(s['max'], reserved=s['r'])
    if t == 0x52 and 'uid' in s:
        return u.ImplementationClassUIDSubItem(s['uid'], reserved=s['r'])
    if t == 0x53 and 'inv' in s:
        return u.AsynchronousOperationsWindowSubItem(s['inv'], s['perf'], reserved=s['r'])
    if t == 0x54 and 'scu' in s:
        return u.ScpScuRoleSelectionSubItem(s['uid'], s['scu'], s['scp'], reserved=s['r'])
    if t == 0x55 and 'name' in s:
        return u.ImplementationVersionNameSubItem(s['name'], reserved=s['r'])
    if t == 0x56 and 'info' in s:
        return u.SOPClassExtendedNegotiationSubItem(s['uid'], s['info'], reserved=s['r'])
    if t == 0x58 and 'prim' in s:
        return u.UserIdentityNegotiationSubItem(s['prim'], s['sec'], s['type'], s['rsp'], s['r'])
    if t == 0x59 and 'resp' in s:
        return u.UserIdentityNegotiationSubItemAc(s['resp'], reserved=s['r'])
    return u.GenericUserDataSubItem(t, s['data'], reserved=s['r'])


def build_item(it):
    from pynetdicom2 import pdu
    t = it['t']
    if t == 0x10:
        return pdu.ApplicationContextItem(it['name'], reserved=it['r'])
    if t == 0x20:
        return pdu.PresentationContextItemRQ(
            it['id'], pdu.AbstractSyntaxSubItem(it['abs']['name'], reserved=it['abs']['r']),
            [pdu.TransferSyntaxSubItem(x['name'], reserved=x['r']) for x in it['ts']],
            reserved1=it['r1'], reserved2=it['r2'], reserved3=it['r3'], reserved4=it['r4'])
    if t == 0x21:
        return pdu.PresentationContextItemAC(
            it['id'], it['result'],
            pdu.TransferSyntaxSubItem(it['ts']['name'], reserved=it['ts']['r']),
            reserved1=it['r1'], reserved2=it['r2'], reserved3=it['r3'])
    if t == 0x50:
        return pdu.UserInformationItem([build_sub(s) for s in it['subs']], reserved=it['r'])
    raise ValueError(t)


def build(p):
    from pynetdicom2 import pdu
    t = p['t']
    if t in (1, 2):
        cls = pdu.AAssociateRqPDU if t == 1 else pdu.AAssociateAcPDU
        return cls(p['called'], p['calling'], [build_item(i) for i in p['items']],
                   protocol_version=p['ver'], reserved1=p['r1'], reserved2=p['r2'],
                   reserved3=tuple(p['r3']))
    if t == 3:
        return pdu.AAssociateRjPDU(p['result'], p['source'], p['reason'], reserved1=p['r1'],
                                   reserved2=p['r2'])
    if t == 4:
        return pdu.PDataTfPDU([pdu.PresentationDataValueItem(v['id'], v['data'])
                               for v in p['pdvs']], reserved=p['r'])
    if t in (5, 6):
        cls = pdu.AReleaseRqPDU if t == 5 else pdu.AReleaseRpPDU
        return cls(reserved1=p['r1'], reserved2=p['r2'])
    if t == 7:
        return pdu.AAbortPDU(p['source'], p['reason'], reserved1=p['r1'], reserved2=p['r2'],
                             reserved3=p['r3'])
    raise ValueError(t)


def pdu_class(t):
    from pynetdicom2 import pdu
    return {1: pdu.AAssociateRqPDU, 2: pdu.AAssociateAcPDU, 3: pdu.AAssociateRjPDU,
            4: pdu.PDataTfPDU, 5: pdu.AReleaseRqPDU, 6: pdu.AReleaseRpPDU, 7: pdu.AAbortPDU}[t]


def scramble(o, depth=0):
    """Overwrite every public piece of state of a library PDU object (and of its items, sub-items, PDVs) in
    place.  What the caller holds is the caller's: a later decode() of the same bytes must not notice."""
    if depth > 6 or o is None:
        return
    try:
        state = vars(o)
    except TypeError:
        return
    for name, v in list(state.items()):
        if isinstance(v, bool):
            new = not v
        elif isinstance(v, int):
            new = (v + 1) & 0xFF if v < 256 else v // 2 + 7
        elif isinstance(v, str):
            new = v + 'Z'
        elif isinstance(v, (bytes, bytearray)):
            new = b'\x5A' + bytes(v)
        elif isinstance(v, (list, tuple)):
            for x in v:
                if hasattr(x, '__dict__'):
                    scramble(x, depth + 1)
            continue
        elif hasattr(v, '__dict__') and type(v).__module__.startswith('pynetdicom2'):
            scramble(v, depth + 1)
            continue
        else:
            continue
        try:
            setattr(o, name, new)
        except Exception:
            pass


def extract_sub(o):
    from pynetdicom2 import userdataitems as u
    if isinstance(o, u.MaximumLengthSubItem):
        return {'t': o.item_type, 'r': o.reserved, 'max': o.maximum_length_received}
    if isinstance(o, u.ImplementationClassUIDSubItem):
        return {'t': o.item_type, 'r': o.reserved, 'uid': str(o.implementation_class_uid)}
    if isinstance(o, u.AsynchronousOperationsWindowSubItem):
        return {'t': o.item_type, 'r': o.reserved, 'inv': o.max_num_ops_invoked,
                'perf': o.max_num_ops_performed}
    if isinstance(o, u.ScpScuRoleSelectionSubItem):
        return {'t': o.item_type, 'r': o.reserved, 'uid': str(o.sop_class_uid),
                'scu': o.scu_role, 'scp': o.scp_role}
    if isinstance(o, u.ImplementationVersionNameSubItem):
        return {'t': o.item_type, 'r': o.reserved, 'name': o.implementation_version_name}
    if isinstance(o, u.SOPClassExtendedNegotiationSubItem):
        return {'t': o.item_type, 'r': o.reserved, 'uid': str(o.sop_class_uid),
                'info': bytes(o.app_info)}
    if isinstance(o, u.UserIdentityNegotiationSubItem):
        return {'t': o.item_type, 'r': o.reserved, 'type': o.user_identity_type,
                'rsp': o.positive_response_req, 'prim': o.primary_field, 'sec': o.secondary_field}
    if isinstance(o, u.UserIdentityNegotiationSubItemAc):
        return {'t': o.item_type, 'r': o.reserved, 'resp': o.server_response}
    if isinstance(o, u.GenericUserDataSubItem):
        return {'t': o.item_type, 'r': o.reserved, 'data': bytes(o.user_data)}
    return {'t': 'unexpected %s' % type(o).__name__}


def extract_item(o):
    from pynetdicom2 import pdu
    if isinstance(o, pdu.ApplicationContextItem):
        return {'t': 0x10, 'r': o.reserved, 'name': str(o.context_name)}
    if isinstance(o, pdu.PresentationContextItemRQ):
        return {'t': 0x20, 'r1': o.reserved1, 'id': o.context_id, 'r2': o.reserved2,
                'r3': o.reserved3, 'r4': o.reserved4,
                'abs': {'r': o.abs_sub_item.reserved, 'name': str(o.abs_sub_item.name)},
                'ts': [{'r': x.reserved, 'name': str(x.name)} for x in o.ts_sub_items]}
    if isinstance(o, pdu.PresentationContextItemAC):
        return {'t': 0x21, 'r1': o.reserved1, 'id': o.context_id, 'r2': o.reserved2,
                'result': o.result_reason, 'r3': o.reserved3,
                'ts': {'r': o.ts_sub_item.reserved, 'name': str(o.ts_sub_item.name)}}
    if isinstance(o, pdu.UserInformationItem):
        return {'t': 0x50, 'r': o.reserved, 'subs': [extract_sub(s) for s in o.user_data]}
    return {'t': 'unexpected %s' % type(o).__name__}


def extract(o):
    from pynetdicom2 import pdu
    if isinstance(o, (pdu.AAssociateRqPDU, pdu.AAssociateAcPDU)):
        return {'t': o.pdu_type, 'r1': o.reserved1, 'ver': o.protocol_version, 'r2': o.reserved2,
                'called': o.called_ae_title, 'calling': o.calling_ae_title,
                'r3': list(o.reserved3), 'items': [extract_item(i) for i in o.variable_items]}
    if isinstance(o, pdu.AAssociateRjPDU):
        return {'t': 3, 'r1': o.reserved1, 'r2': o.reserved2, 'result': o.result,
                'source': o.source, 'reason': o.reason_diag}
    if isinstance(o, pdu.PDataTfPDU):
        return {'t': 4, 'r': o.reserved,
                'pdvs': [{'id': v.context_id, 'data': bytes(v.data_value)}
                         for v in o.data_value_items]}
    if isinstance(o, (pdu.AReleaseRqPDU, pdu.AReleaseRpPDU)):
        return {'t': o.pdu_type, 'r1': o.reserved1, 'r2': o.reserved2}
    if isinstance(o, pdu.AAbortPDU):
        return {'t': 7, 'r1': o.reserved1, 'r2': o.reserved2, 'r3': o.reserved3,
                'source': o.source, 'reason': o.reason_diag}
    return {'t': 'unexpected %s' % type(o).__name__}


def norm_ae(spec):
    """Copy of a PDU spec with AE titles stripped of surrounding spaces/NULs (non-significant)."""
    if isinstance(spec, dict) and spec.get('t') in (1, 2):
        spec = dict(spec)
        spec['called'] = spec['called'].strip(' \0')
        spec['calling'] = spec['calling'].strip(' \0')
    return spec


def sub_kind(s):
    return ('%02X' % s['t']) if s['t'] in KNOWN_SUB_TYPES and 'data' not in s else 'gen'


def first_diff(a, b, path=''):
    """Path of the first difference between two plain-data values, or None."""
    if isinstance(a, dict) and isinstance(b, dict):
        for k in sorted(set(a) | set(b)):
            if k not in a or k not in b:
                return '%s.%s(missing)' % (path, k)
            d = first_diff(a[k], b[k], '%s.%s' % (path, k))
            if d:
                return d
        return None
    if isinstance(a, (list, tuple)) and isinstance(b, (list, tuple)):
        for i, (x, y) in enumerate(zip(a, b)):
            d = first_diff(x, y, '%s[%d]' % (path, i))
            if d:
                return d
        if len(a) != len(b):
            return '%s(len %d != %d)' % (path, len(a), len(b))
        return None
    if isinstance(a, (bytes, bytearray)) and isinstance(b, (bytes, bytearray)):
        return None if bytes(a) == bytes(b) else path
    if type(a) is bool or type(b) is bool:
        return None if a is b else path
    return None if a == b else path
