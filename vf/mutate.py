"""Structure-aware mutators over encoded PDUs (C12).  Works on bytes produced by the reference
encoder; knows where every type byte and length field lives (PS3.8 9.3 layouts)."""
from __future__ import annotations

import struct

from . import refcmd, refpdu, convs


def fields(raw):
    """[(offset, width, kind)] for every type byte and length field of one encoded PDU.
    kinds: pdu-type, pdu-len, item-type, item-len, sub-type, sub-len, uid-len, pdv-len, pdv-hdr, pdv-id"""
    out = [(0, 1, 'pdu-type'), (2, 4, 'pdu-len')]
    t = raw[0]
    end = len(raw)
    if t in (1, 2):
        p = 74
        while p + 4 <= end:
            it, ln = raw[p], struct.unpack('>H', raw[p + 2:p + 4])[0]
            out += [(p, 1, 'item-type'), (p + 2, 2, 'item-len')]
            body_end = min(end, p + 4 + ln)
            q = None
            if it in (0x20, 0x21):
                q = p + 8
            elif it == 0x50:
                q = p + 4
            while q is not None and q + 4 <= body_end:
                st_, sl = raw[q], struct.unpack('>H', raw[q + 2:q + 4])[0]
                out += [(q, 1, 'sub-type'), (q + 2, 2, 'sub-len')]
                if st_ == 0x51 and it == 0x50 and q + 8 <= body_end:
                    out.append((q + 4, 4, 'maxlen-val'))
                if st_ in (0x54, 0x56, 0x59) and q + 6 <= body_end:
                    out.append((q + 4, 2, 'uid-len'))
                if st_ == 0x58 and q + 8 <= body_end:
                    out.append((q + 6, 2, 'uid-len'))
                q += 4 + sl
            p += 4 + ln
    elif t == 4:
        p = 6
        while p + 6 <= end:
            ln = struct.unpack('>I', raw[p:p + 4])[0]
            out += [(p, 4, 'pdv-len'), (p + 4, 1, 'pdv-id'), (p + 5, 1, 'pdv-hdr')]
            p += 4 + max(ln, 2)
    return out


def text_spans(raw):
    """[(offset, length)] of the text contents of an A-ASSOCIATE-RQ/AC: application context name, abstract and
    transfer syntax names, and the text-valued user sub-items (52H, 54H-56H uid part, 55H, 58H, 59H)."""
    try:
        spec = refpdu.parse_pdu(raw)
    except refpdu.RefError:
        return []
    if spec.get('t') not in (1, 2):
        return []
    out = []
    p = 74
    for it in spec['items']:
        ln = struct.unpack('>H', raw[p + 2:p + 4])[0]
        if it['t'] == 0x10:
            out.append((p + 4, ln))
        elif it['t'] in (0x20, 0x21):
            q = p + 8
            while q + 4 <= p + 4 + ln:
                sl = struct.unpack('>H', raw[q + 2:q + 4])[0]
                out.append((q + 4, sl))
                q += 4 + sl
        elif it['t'] == 0x50:
            q = p + 4
            while q + 4 <= p + 4 + ln:
                st_, sl = raw[q], struct.unpack('>H', raw[q + 2:q + 4])[0]
                if st_ in (0x52, 0x55):
                    out.append((q + 4, sl))
                elif st_ in (0x54, 0x56, 0x59):
                    out.append((q + 6, struct.unpack('>H', raw[q + 4:q + 6])[0]))
                elif st_ == 0x58:
                    n1 = struct.unpack('>H', raw[q + 6:q + 8])[0]
                    out.append((q + 8, n1))
                    out.append((q + 10 + n1, struct.unpack('>H', raw[q + 8 + n1:q + 10 + n1])[0]))
                q += 4 + sl
        p += 4 + ln
    return [(o, n) for o, n in out if n >= 2 and o + n <= len(raw)]


def put(raw, off, width, value):
    value &= (1 << (8 * width)) - 1
    return raw[:off] + value.to_bytes(width, 'big') + raw[off + width:]


def fix_outer(raw):
    return raw[:2] + struct.pack('>I', max(0, len(raw) - 6)) + raw[6:]


def mutants_of(raw):
    """Deterministic list of (name, bytes) mutations of one encoded PDU."""
    out = []
    n = len(raw)
    for cut in sorted({6, 7, 9, n // 2, n - 1, 10, 74, 75} & set(range(6, n))):
        out.append(('truncate-keep-len@%d' % cut, raw[:cut]))
        out.append(('truncate-fix-len@%d' % cut, fix_outer(raw[:cut])))
    for off, width, kind in fields(raw):
        cur = int.from_bytes(raw[off:off + width], 'big')
        if kind.endswith('len'):
            for v in (0, 1, cur - 1, cur + 1, 0xFFFF, 0xFFFFFFFF):
                if v != cur and v >= 0:
                    m = put(raw, off, width, v)
                    out.append(('%s@%d=%d' % (kind, off, v & ((1 << 8 * width) - 1)), m))
                    if kind != 'pdu-len' and width == 2:
                        pass
        elif kind.endswith('type'):
            for v in (0, 8, 0x11, 0x57, 0xFF):
                if v != cur:
                    out.append(('%s@%d=%02X' % (kind, off, v), put(raw, off, 1, v)))
        elif kind == 'maxlen-val':
            # the value a peer announces as its maximum PDU length: any 32-bit number, also absurdly small ones
            for v in (0, 1, 5, 6, 7, 8, 12, 0x7FFFFFFF, 0xFFFFFFFF):
                if v != cur:
                    out.append(('maxlen-val@%d=%d' % (off, v), put(raw, off, 4, v)))
        elif kind == 'pdv-hdr':
            for v in (4, 7, 0x80, 0xFF):
                out.append(('pdv-hdr@%d=%d' % (off, v), put(raw, off, 1, v)))
        elif kind == 'pdv-id':
            for v in (0, 2, 99, 255):
                if v != cur:
                    out.append(('pdv-id@%d=%d' % (off, v), put(raw, off, 1, v)))
    # well-formed multi-byte UTF-8 in text fields (AE titles at 10..41, UIDs further on)
    for pos in sorted({10, 14, 26, 30, 84, 100} & set(range(6, n - 1))):
        out.append(('utf8@%d' % pos, raw[:pos] + b'\xc3\x89' + raw[pos + 2:]))
    # ... and in every text field the structure has (same number of bytes, one character fewer)
    for off, ln in text_spans(raw):
        out.append(('utf8-field@%d' % off, raw[:off] + b'\xc3\x89' + raw[off + 2:]))
        if ln >= 4:
            out.append(('utf8-field-end@%d' % off, raw[:off + ln - 3] + b'\xe2\x82\xac' + raw[off + ln:]))
    # non-ASCII / invalid UTF-8 in the body
    for pos in sorted({10, 26, 80, 90, n - 2} & set(range(6, n))):
        out.append(('byte@%d=FF' % pos, raw[:pos] + b'\xff' + raw[pos + 1:]))
        out.append(('byte@%d=80' % pos, raw[:pos] + b'\x80' + raw[pos + 1:]))
    return out


def pdata(pdvs):
    return refpdu.enc_pdu({'t': 4, 'r': 0, 'pdvs': pdvs})


def hostile_pdata():
    """Semantically hostile P-DATA-TF PDUs (well-framed, bad DIMSE content)."""
    echo = refcmd.encode({0x0002: convs.VERIF_UID, 0x0100: 0x0030, 0x0110: 1, 0x0800: 0x0101})
    store = refcmd.encode({0x0002: convs.STORE_UID, 0x0100: 0x0001, 0x0110: 1, 0x0700: 0, 0x0800: 1,
                           0x1000: '1.2.3'})
    out = []
    out.append(('empty-pdv', b'\x04\x00' + struct.pack('>I', 5) + struct.pack('>IB', 1, 1)))
    out.append(('pdv-len-0', b'\x04\x00' + struct.pack('>I', 5) + struct.pack('>IB', 0, 1)))
    out.append(('pdv-oversize', b'\x04\x00' + struct.pack('>I', 8) + struct.pack('>IB', 500, 1) + b'\x03ab'))
    out.append(('no-pdv', b'\x04\x00' + struct.pack('>I', 0)))
    out.append(('hdr-only', pdata([{'id': 1, 'data': b'\x03'}])))
    out.append(('bad-control-header', pdata([{'id': 1, 'data': b'\x07' + echo}])))
    out.append(('command-truncated', pdata([{'id': 1, 'data': b'\x03' + echo[:-3]}])))
    out.append(('command-garbage', pdata([{'id': 1, 'data': b'\x03' + b'\xff' * 40}])))
    out.append(('command-explicit-vr', pdata([{'id': 1, 'data': b'\x03' + b'\x00\x00\x00\x00UL\x04\x00\x10\x00\x00\x00' +
                                               b'\x00\x00\x00\x01US\x02\x00\x30\x00' + b'\x00\x00\x00\x08US\x02\x00\x01\x01'}])))
    out.append(('no-command-field', pdata([{'id': 1, 'data': b'\x03' + refcmd.encode({0x0002: convs.VERIF_UID, 0x0110: 1, 0x0800: 0x0101})}])))
    out.append(('no-dataset-type', pdata([{'id': 1, 'data': b'\x03' + refcmd.encode({0x0002: convs.VERIF_UID, 0x0100: 0x0030, 0x0110: 1})}])))
    out.append(('unknown-command-field', pdata([{'id': 1, 'data': b'\x03' + refcmd.encode({0x0002: convs.VERIF_UID, 0x0100: 0x0777, 0x0110: 1, 0x0800: 0x0101})}])))
    out.append(('unknown-context', pdata([{'id': 77, 'data': b'\x03' + store}, {'id': 77, 'data': b'\x02abcd'}])))
    out.append(('store-missing-instance', pdata([{'id': 3, 'data': b'\x03' + refcmd.encode({0x0002: convs.STORE_UID, 0x0100: 0x0001, 0x0110: 1, 0x0800: 1})},
                                                 {'id': 3, 'data': b'\x02abcd'}])))
    out.append(('data-before-command', pdata([{'id': 3, 'data': b'\x02abcd'}]) + pdata([{'id': 3, 'data': b'\x03' + store}])))
    out.append(('data-then-unknown-ctx-command', pdata([{'id': 9, 'data': b'\x00ab'}, {'id': 9, 'data': b'\x03' + store}, {'id': 9, 'data': b'\x02cd'}])))
    out.append(('empty-command', pdata([{'id': 1, 'data': b'\x03'}])))
    out.append(('group-length-lies', pdata([{'id': 1, 'data': b'\x03' + echo[:8] + b'\xff\xff\xff\x7f' + echo[12:]}])))
    out.append(('element-length-huge', pdata([{'id': 1, 'data': b'\x03' + echo[:12] + b'\x00\x00\x02\x00\xff\xff\xff\x7f' + b'1.2'}])))
    # a complete, valid message followed IN THE SAME PDU by PDVs that are not: the message may be indicated, the rest
    # is invalid content of that PDU
    vecho = {'id': 1, 'data': b'\x03' + echo}
    out.append(('valid-then-bad-header', pdata([vecho, {'id': 1, 'data': b'\x07' + echo}])))
    out.append(('valid-then-empty-pdv', pdata([vecho, {'id': 1, 'data': b''}])))
    out.append(('valid-then-garbage-command', pdata([vecho, {'id': 1, 'data': b'\x03' + b'\xff' * 30}])))
    out.append(('valid-then-unknown-command-field', pdata([vecho, {'id': 1, 'data': b'\x03' + refcmd.encode({0x0002: convs.VERIF_UID, 0x0100: 0x0777, 0x0110: 2, 0x0800: 0x0101})}])))
    out.append(('valid-then-unknown-context', pdata([vecho, {'id': 99, 'data': b'\x03' + echo}])))
    out.append(('two-valid-then-bad', pdata([vecho, vecho, {'id': 1, 'data': b'\x05xx'}])))
    out.append(('undefined-length-element', pdata([{'id': 1, 'data': b'\x03' + echo[:12] + b'\x00\x00\x02\x00\xff\xff\xff\xff' + b'1.2.3.4'}])))
    return out


def base_pdus():
    c = convs
    return [('rq', refpdu.enc_pdu(c.RQ_SPEC)), ('ac', refpdu.enc_pdu(c.AC_SPEC)), ('rj', refpdu.enc_pdu(c.RJ_SPEC)),
            ('echo', refpdu.enc_pdu(c.echo_rq(1))),
            ('store', refpdu.enc_pdu(c.store_rq_pdus(2, one_pdu=True)[0])),
            ('rel-rq', refpdu.enc_pdu(c.REL_RQ)), ('rel-rp', refpdu.enc_pdu(c.REL_RP)),
            ('abort', refpdu.enc_pdu(c.ABORT_SU)),
            ('rq-rich', refpdu.enc_pdu(dict(c.RQ_SPEC, items=c.RQ_SPEC['items'][:3] + [
                {'t': 0x50, 'r': 0, 'subs': [{'t': 0x51, 'r': 0, 'max': 16384}, {'t': 0x52, 'r': 0, 'uid': '1.2.3'},
                                             {'t': 0x53, 'r': 0, 'inv': 3, 'perf': 2},
                                             {'t': 0x54, 'r': 0, 'uid': '1.2.840.10008.1.1', 'scu': 1, 'scp': 1},
                                             {'t': 0x56, 'r': 0, 'uid': '1.2.3.4', 'info': b'\x01\x02'},
                                             {'t': 0x58, 'r': 0, 'type': 2, 'rsp': 1, 'prim': 'user', 'sec': 'pw'},
                                             {'t': 0x55, 'r': 0, 'name': 'VERSION'}]}]))),
            ('ac-rich', refpdu.enc_pdu(dict(c.AC_SPEC, items=c.AC_SPEC['items'][:3] + [
                {'t': 0x50, 'r': 0, 'subs': [{'t': 0x51, 'r': 0, 'max': 16384}, {'t': 0x52, 'r': 0, 'uid': '1.2.3'},
                                             {'t': 0x53, 'r': 0, 'inv': 1, 'perf': 1},
                                             {'t': 0x59, 'r': 0, 'resp': 'ticket'},
                                             {'t': 0x55, 'r': 0, 'name': 'PEER_1'}]}])))]


def invalid_pdata(frame):
    """A well-framed P-DATA-TF carrying a PDV without message control header or with reserved header bits set
    (PS3.8 Annex E.2): an invalid PDU parameter value."""
    if frame[0] != 4:
        return False
    try:
        p = refpdu.parse_pdu(frame)
    except refpdu.RefError:
        return False
    # (only the FIRST PDV counts: PDVs that follow a completed message in the same PDU are not looked at by a lenient
    #  receiver, which is not a violation)
    return any(len(v['data']) < 1 or v['data'][0] > 3 for v in p['pdvs'][:1])


def certainly_undecodable(frame):
    """Frames that no conformant decoder can accept: unknown PDU type, or a body shorter than the
    fixed part of its type."""
    t = frame[0]
    body = len(frame) - 6
    if t not in (1, 2, 3, 4, 5, 6, 7):
        return True
    if t in (1, 2) and body < 68:
        return True
    if t in (3, 5, 6, 7) and body < 4:
        return True
    return False
