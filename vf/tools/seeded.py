"""Run checks against the independently written breaking changes under /verif/seeded/<name>/.

    python -m vf.tools.seeded [name ...] [--tier quick|thorough] [--all-checks]

For each seeded change: copy /repo's tree to a scratch directory, apply patch.diff there, confirm the
demonstration (demo.py exits 1 on the changed copy and 0 on /repo), run the property's check (and, with
--all-checks, every check) with VERIF_REPO pointing at the copy, and report which checks raise a
violation.  Nothing is ever applied to /repo itself; scratch copies are removed.
"""
import json
import os
import shutil
import subprocess
import sys
import tempfile
import time

VERIF = os.path.dirname(os.path.dirname(os.path.dirname(os.path.abspath(__file__))))
REPO = '/repo'
ALL = ['C%02d' % i for i in range(1, 21)]


def scratch_copy(patch):
    tmp = tempfile.mkdtemp(prefix='vfseed_')
    for name in ('pynetdicom2', 'tests'):
        shutil.copytree(os.path.join(REPO, name), os.path.join(tmp, name))
    res = subprocess.run(['patch', '-p1', '-s', '-i', patch], cwd=tmp, capture_output=True, text=True)
    if res.returncode != 0:
        shutil.rmtree(tmp, ignore_errors=True)
        raise RuntimeError('patch does not apply: %s %s' % (res.stdout, res.stderr))
    return tmp


def run_check(prop, tree, tier):
    env = dict(os.environ, VERIF_REPO=tree, VERIF_OUT=os.path.join(tree, 'out'), PYTHONHASHSEED='0',
               PYTHONDONTWRITEBYTECODE='1')
    t0 = time.time()
    res = subprocess.run(['/venv/bin/python', '-m', 'vf.run', prop, '--tier', tier], cwd=VERIF, env=env,
                         capture_output=True, text=True)
    keys = [l.strip()[:160] for l in res.stdout.splitlines() if l.strip().startswith('key=')]
    return res.returncode, time.time() - t0, keys


def main(argv):
    tier = 'quick'
    all_checks = False
    names = []
    it = iter(argv)
    for a in it:
        if a == '--tier':
            tier = next(it)
        elif a == '--all-checks':
            all_checks = True
        else:
            names.append(a)
    base = os.path.join(VERIF, 'seeded')
    names = names or sorted(d for d in os.listdir(base) if os.path.isdir(os.path.join(base, d)))
    rows = []
    for name in names:
        d = os.path.join(base, name)
        meta = json.load(open(os.path.join(d, 'meta.json')))
        prop = meta['property']
        try:
            tree = scratch_copy(os.path.join(d, 'patch.diff'))
        except RuntimeError as exc:
            print('%-14s %s PATCH-ERROR %s' % (name, prop, exc))
            continue
        try:
            demo = os.path.join(d, 'demo.py')
            r1 = subprocess.run(['/venv/bin/python', demo, tree], capture_output=True, text=True, timeout=300)
            r0 = subprocess.run(['/venv/bin/python', demo, REPO], capture_output=True, text=True, timeout=300)
            tests = subprocess.run(['/venv/bin/python', '-m', 'pytest', '-q', '-p', 'no:cacheprovider',
                                    'tests/test_pdu.py', 'tests/test_dimsemessages.py'], cwd=tree,
                                   capture_output=True, text=True)
            line = (tests.stdout.strip().splitlines() or ['?'])[-1]
            print('%-14s %s demo(changed)=%d demo(repo)=%d tests: %s' % (name, prop, r1.returncode, r0.returncode, line))
            props = ALL if all_checks else [prop] + [p for p in meta.get('also_run', []) if p != prop]
            for p in props:
                rc, dt, keys = run_check(p, tree, tier)
                verdict = {0: 'quiet', 1: 'VIOLATION', 2: 'HARNESS-ERROR'}.get(rc, 'rc=%d' % rc)
                print('    %s %-9s %-13s (%.0fs) %s' % (p, tier, verdict, dt, keys[0] if keys else ''), flush=True)
                rows.append((name, p, verdict))
        finally:
            shutil.rmtree(tree, ignore_errors=True)
    return 0


if __name__ == '__main__':
    sys.exit(main(sys.argv[1:]))
