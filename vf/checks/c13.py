"""C13 - every association ending terminates the provider and releases the connection.

Fault enumeration on the deterministic transport (vf/simnet.py): peer disconnect after every byte
prefix of every conversation, peer silence at every ARTIM arming point, kill and stop requests at
every quiescent point.
"""
from __future__ import annotations

import warnings

from .. import convs, refpdu, simnet, ulmodel
from ..common import Violation, HarnessError, parallel, lib_frame, quiet_warnings

LEVEL = 'fault_enumeration'
ARTIM = ulmodel.ARTIM_SECONDS


def corpus(thorough=False):
    c = dict(convs.corpus())
    c['acc-store5-release'] = ('acceptor', [
        ('burst', convs.enc(convs.RQ_SPEC)), ('user', {'pdu': convs.AC_SPEC}),
        ('burst', convs.enc(*convs.store_rq_pdus(4, frag=30))), ('user', {'msg': [convs.echo_rsp(7, 3)]}),
        ('burst', convs.enc(convs.REL_RQ)), ('user', {'pdu': convs.REL_RP}), ('close',)])
    c['req-store3-out-release'] = ('requestor', [
        ('user', {'pdu': convs.RQ_SPEC}), ('burst', convs.enc(convs.AC_SPEC)),
        ('user', {'msg': convs.store_rq_pdus(2)}), ('burst', convs.enc(convs.echo_rsp(7, 3))),
        ('user', {'pdu': convs.REL_RQ}), ('burst', convs.enc(convs.REL_RP))])
    c['acc-user-abort'] = ('acceptor', [
        ('burst', convs.enc(convs.RQ_SPEC)), ('user', {'pdu': convs.AC_SPEC}),
        ('burst', convs.enc(convs.echo_rq(1))), ('user', {'pdu': convs.ABORT_SP}), ('close',)])
    c['acc-silent'] = ('acceptor', [])
    if thorough:
        c['acc-store20-release'] = ('acceptor', [
            ('burst', convs.enc(convs.RQ_SPEC)), ('user', {'pdu': convs.AC_SPEC}),
            ('burst', convs.enc(*convs.store_rq_pdus(19, frag=16))), ('user', {'msg': [convs.echo_rsp(7, 3)]}),
            ('burst', convs.enc(convs.REL_RQ)), ('user', {'pdu': convs.REL_RP}), ('close',)])
    return c


def actions_until(steps, cut, user_after):
    """Script delivering the conversation until `cut` peer bytes have been sent, then the peer
    disconnects.  Returns (actions, user_ended, engaged, n_user_steps_done)."""
    actions = []
    sent = 0
    user_ended = False
    engaged = False
    done = False
    pending_user_after = None
    for st in steps:
        if done:
            if st[0] == 'user' and pending_user_after is None:
                pending_user_after = st
            break
        if st[0] == 'burst':
            for raw in st[1]:
                if sent + len(raw) <= cut:
                    actions.append({'k': 'seg', 'data': raw, 'eager': False})
                    sent += len(raw)
                    if raw[0] in (1, 2):
                        engaged = True
                else:
                    part = raw[:cut - sent]
                    if part:
                        actions.append({'k': 'seg', 'data': part, 'eager': False})
                    sent = cut
                    done = True
                    break
            if sent >= cut and not done:
                # cut exactly at the end of this burst: decided by the caller via cut value
                pass
        elif st[0] == 'user':
            actions.append({'k': 'user', 'prim': convs.user_prim(st[1])})
            p = st[1].get('pdu')
            if p is not None:
                if p['t'] == 1:
                    engaged = True
                if p['t'] in (7, 3, 6):
                    user_ended = True
        elif st[0] == 'close':
            break
    actions.append({'k': 'close', 'eager': False})
    if user_after and pending_user_after is not None:
        actions.append({'k': 'user', 'prim': convs.user_prim(pending_user_after[1])})
    return actions, user_ended, engaged


def peer_len(steps):
    return sum(len(r) for s in steps if s[0] == 'burst' for r in s[1])


def end_oracle(name, sim, case, engaged, user_ended, what):
    out = sim.outcome
    if out[0] == 'exception':
        raise Violation('C13:loop-died:%s' % lib_frame(out[1]), '%s (%s): provider loop died with %r'
                        % (name, what, out[1]), case)
    if out[0] == 'hang':
        raise Violation('C13:hang', '%s (%s): %s' % (name, what, out[1]), case)
    fin = sim.final()
    never_connected = sim.role == 'requestor' and sim.sock.connected_to is None
    if fin['state'] != 1 or not fin['sock_none'] or not (fin['closed'] or never_connected):
        raise Violation('C13:not-idle', '%s (%s): ended in Sta%s, socket closed=%s, dul_socket None=%s'
                        % (name, what, fin['state'], fin['closed'], fin['sock_none']), case)
    if fin['artim']:
        raise Violation('C13:artim-left-running', '%s (%s): idle with ARTIM still running' % (name, what), case)
    if not fin['loop_exited_flag']:
        raise Violation('C13:exit-flag', '%s (%s): run() returned without setting the exit flag' % (name, what), case)
    try:
        refpdu.parse_stream(sim.wire())
    except refpdu.RefError as exc:
        raise Violation('C13:wire-malformed', '%s (%s): %s' % (name, what, exc), case)
    kinds_all = [getattr(i, 'pdu_type', 'dimse') for i in sim.indications()]
    if kinds_all.count(7) > 1:
        raise Violation('C13:told-twice', '%s (%s): the end of ONE association was indicated to the local user %d times (%r)'
                        % (name, what, kinds_all.count(7), kinds_all), case)
    if engaged and not user_ended:
        kinds = [getattr(i, 'pdu_type', 'dimse') for i in sim.indications()]
        if not [k for k in kinds if k in (7, 3, 6)]:
            raise Violation('C13:user-not-told', '%s (%s): user saw %r, never told the association is gone'
                            % (name, what, kinds), case)


def run_disconnects(ctx, name, role, steps, only=None):
    n = peer_len(steps)
    bounds = set()
    p = 0
    for s in steps:
        if s[0] == 'burst':
            for r in s[1]:
                p += len(r)
                bounds.add(p)
    for cut in range(0, n + 1):
        for user_after in (False, True):
            if only is not None and only != (cut, user_after):
                continue
            case = {'kind': 'disconnect', 'conv': name, 'cut': cut, 'user_after': user_after}
            actions, user_ended, engaged = actions_until(steps, cut, user_after)
            if user_after and actions[-1]['k'] != 'user':
                continue        # no local step follows this cut: same script as user_after=False
            actions += [{'k': 'tick', 'dt': ARTIM - 0.5}, {'k': 'tick', 'dt': 1.5}]
            sim = simnet.run_scenario(role, actions)
            ctx.case(('disc', name, cut, user_after), 0 < cut < n,
                     labels=['disconnect', 'conv=' + name, 'inside-pdu' if cut not in bounds and cut else 'at-boundary'],
                     sample=case)
            try:
                end_oracle(name, sim, case, engaged, user_ended, 'peer disconnect after %d of %d bytes' % (cut, n))
                # bounded time: idle at the first quiescent point after the close was delivered
                close_idx = max(i for i, a in enumerate(actions) if a['k'] == 'close')
                later = [s for s in sim.snaps if s['next'] > close_idx + (1 if user_after else 0)]
                if later and later[0]['state'] not in (1,):
                    # allowed only if the provider legitimately waits for ARTIM (never after a peer close)
                    raise Violation('C13:slow', '%s: still in Sta%s after the peer disconnected'
                                    % (name, later[0]['state']), case)
            except Violation as v:
                ctx.fail(v.key, v.what, v.case)


def silence_points():
    """name -> (role, steps that arm ARTIM and after which the peer stays silent, engaged, user_ended)."""
    c = convs
    est_acc = [('burst', c.enc(c.RQ_SPEC)), ('user', {'pdu': c.AC_SPEC})]
    est_req = [('user', {'pdu': c.RQ_SPEC}), ('burst', c.enc(c.AC_SPEC))]
    return {
        'before-first-pdu': ('acceptor', [], False, False),
        'partial-first-pdu': ('acceptor', [('burst', [c.enc(c.RQ_SPEC)[0][:40]])], False, False),
        'after-local-reject': ('acceptor', [('burst', c.enc(c.RQ_SPEC)), ('user', {'pdu': c.RJ_SPEC})], True, True),
        'after-local-abort-sta6': ('acceptor', est_acc + [('user', {'pdu': c.ABORT_SP})], True, True),
        'after-local-abort-sta3': ('acceptor', [('burst', c.enc(c.RQ_SPEC)), ('user', {'pdu': c.ABORT_SU})], True, True),
        'after-local-abort-sta5': ('requestor', [('user', {'pdu': c.RQ_SPEC}), ('user', {'pdu': c.ABORT_SU})], True, True),
        'after-local-abort-sta7': ('requestor', est_req + [('user', {'pdu': c.REL_RQ}), ('user', {'pdu': c.ABORT_SU})], True, True),
        'after-local-release-rsp': ('acceptor', est_acc + [('burst', c.enc(c.REL_RQ)), ('user', {'pdu': c.REL_RP})], True, True),
        'after-release-rsp-collision': ('acceptor', est_acc + [('user', {'pdu': c.REL_RQ}), ('burst', c.enc(c.REL_RQ, c.REL_RP)),
                                                                ('user', {'pdu': c.REL_RP})], True, True),
        'after-provider-abort-sta6': ('acceptor', est_acc + [('burst', [c.UNKNOWN_PDU])], True, False),
        'after-provider-abort-sta2': ('acceptor', [('burst', [c.UNKNOWN_PDU])], False, False),
        'after-provider-abort-sta5': ('requestor', [('user', {'pdu': c.RQ_SPEC}), ('burst', c.enc(c.REL_RQ))], True, False),
        'after-bad-pdata': ('requestor', est_req + [('burst', [refpdu.enc_pdu({'t': 4, 'pdvs': [{'id': 1, 'data': b'\x09zz'}]})])], True, False),
    }


def run_silence(ctx, only=None):
    for name, (role, steps, engaged, user_ended) in sorted(silence_points().items()):
        for chatter in (None, 'ignored-pdus', 'stray-bytes'):
            if only is not None and only != (name, chatter):
                continue
            case = {'kind': 'silence', 'point': name, 'chatter': chatter}
            actions = []
            for s in steps:
                if s[0] == 'burst':
                    actions += [{'k': 'seg', 'data': r, 'eager': False} for r in s[1]]
                else:
                    actions.append({'k': 'user', 'prim': convs.user_prim(s[1])})
            n0 = len(actions)
            if chatter == 'stray-bytes' and name != 'partial-first-pdu':
                # the peer sends an incomplete PDU (a header fragment) and then stays silent: a half-received PDU
                # must not keep the provider from expiring
                actions += [{'k': 'tick', 'dt': 3.0}, {'k': 'seg', 'data': refpdu.enc_pdu(convs.REL_RQ)[:3], 'eager': False},
                            {'k': 'tick', 'dt': 3.0}, {'k': 'seg', 'data': refpdu.enc_pdu(convs.REL_RQ)[3:7], 'eager': False},
                            {'k': 'tick', 'dt': 3.5}]
            elif chatter and name not in ('before-first-pdu', 'partial-first-pdu'):
                # the peer keeps talking instead of closing: must not postpone the ARTIM deadline
                actions += [{'k': 'tick', 'dt': 4.0}, {'k': 'seg', 'data': refpdu.enc_pdu(convs.echo_rq(1)), 'eager': False},
                            {'k': 'tick', 'dt': 4.0}, {'k': 'seg', 'data': refpdu.enc_pdu(convs.REL_RP), 'eager': False},
                            {'k': 'tick', 'dt': 1.5}]
            elif chatter == 'stray-bytes':
                continue
            elif chatter:
                continue
            else:
                actions += [{'k': 'tick', 'dt': ARTIM - 0.5}]
            n1 = len(actions)
            actions += [{'k': 'tick', 'dt': 1.0}]
            sim = simnet.run_scenario(role, actions)
            ctx.case(('silence', name, chatter), True, labels=['silence', 'point=' + name], sample=case)
            try:
                end_oracle(name, sim, case, engaged, user_ended, 'peer silent')
                before = [s for s in sim.snaps if s['next'] == n1]
                if not before or before[0]['state'] == 1 or not before[0]['artim']:
                    raise Violation('C13:artim-not-armed', '%s: %.1f s into the silence: state Sta%s, ARTIM running=%s'
                                    % (name, ARTIM - 0.5, before[0]['state'] if before else '?',
                                       before[0]['artim'] if before else '?'), case)
                # after ARTIM + 0.5 s the provider must be idle (final snapshot, checked by end_oracle)
            except Violation as v:
                ctx.fail(v.key, v.what, v.case)


def trailing_points():
    c = convs
    est_acc = [('burst', c.enc(c.RQ_SPEC)), ('user', {'pdu': c.AC_SPEC})]
    est_req = [('user', {'pdu': c.RQ_SPEC}), ('burst', c.enc(c.AC_SPEC))]
    return {
        'req-peer-abort': ('requestor', est_req, c.ABORT_SU, True, False),
        'acc-peer-abort': ('acceptor', est_acc, c.ABORT_SP, True, False),
        'req-release-confirmed': ('requestor', est_req + [('user', {'pdu': c.REL_RQ})], c.REL_RP, True, False),
        'req-rejected': ('requestor', [('user', {'pdu': c.RQ_SPEC})], c.RJ_SPEC, True, False),
        'acc-aborted-then-peer-abort': ('acceptor', est_acc + [('user', {'pdu': c.ABORT_SU})], c.ABORT_SU, True, True),
    }


def run_trailing(ctx, only=None):
    """The peer's LAST PDU (A-ABORT, A-RELEASE-RP, A-ASSOCIATE-RJ) is followed in the same burst by more bytes - what it
    still had in flight - and the peer then keeps its side of the connection open for good.  The association is over
    with that PDU: the provider closes and is idle, whatever is still unread."""
    echo = refpdu.enc_pdu(convs.echo_rq(1))
    trails = {'none': b'', 'two-pdus': echo * 2, '70kB-of-pdus': echo * (70000 // len(echo) + 1),
              '200kB-of-zeros': b'\x00' * 200000, 'half-a-pdu': echo[:9]}
    for name, (role, steps, last, engaged, user_ended) in sorted(trailing_points().items()):
        for tname, trail in sorted(trails.items()):
            for split in (False, True):
                if only is not None and only != (name, tname, split):
                    continue
                case = {'kind': 'trailing', 'point': name, 'trail': tname, 'split': split}
                actions = []
                for s_ in steps:
                    if s_[0] == 'burst':
                        actions += [{'k': 'seg', 'data': r, 'eager': False} for r in s_[1]]
                    else:
                        actions.append({'k': 'user', 'prim': convs.user_prim(s_[1])})
                raw = refpdu.enc_pdu(last)
                if split:
                    # (the trailing bytes are a segment of their own, already waiting when the last PDU is acted on)
                    actions += [{'k': 'seg', 'data': raw, 'eager': False}, {'k': 'seg', 'data': trail, 'eager': True}] if trail \
                        else [{'k': 'seg', 'data': raw, 'eager': False}]
                else:
                    actions.append({'k': 'seg', 'data': raw + trail, 'eager': False})
                actions += [{'k': 'tick', 'dt': 1.0}, {'k': 'tick', 'dt': ARTIM + 1.0}, {'k': 'tick', 'dt': 1.0}]
                sim = simnet.run_scenario(role, actions, budget=60000)
                ctx.case(('trailing', name, tname, split), bool(trail), labels=['trailing-bytes', 'point=' + name], sample=case)
                try:
                    end_oracle(name, sim, case, engaged, user_ended, 'last PDU followed by %s, peer never closes' % tname)
                except Violation as v:
                    ctx.fail(v.key, v.what, v.case)


def run_other_association(ctx):
    """While one provider waits on ARTIM (silent peer), ANOTHER association is served to completion in the same
    process.  The waiting provider must still expire on time: per-association state (timer, slot, decoder) must
    not be shared between providers."""
    other_role, other_steps = convs.corpus()['acc-store-release']
    other2_role, other2_steps = convs.corpus()['req-echo-release']
    for name in ('before-first-pdu', 'after-local-reject', 'after-local-abort-sta6', 'after-local-release-rsp',
                 'after-provider-abort-sta6'):
        role, steps, engaged, user_ended = silence_points()[name]
        for which, (orole, osteps) in (('acceptor', (other_role, other_steps)), ('requestor', (other2_role, other2_steps))):
            case = {'kind': 'other-association', 'point': name, 'other': which}
            actions = []
            for s in steps:
                if s[0] == 'burst':
                    actions += [{'k': 'seg', 'data': r, 'eager': False} for r in s[1]]
                else:
                    actions.append({'k': 'user', 'prim': convs.user_prim(s[1])})
            inner = {}

            def serve_other(sim, orole=orole, osteps=osteps, inner=inner):
                inner['sim'] = simnet.run_scenario(orole, full_script(osteps))
            actions += [{'k': 'tick', 'dt': 3.0}, {'k': 'call', 'fn': serve_other}, {'k': 'tick', 'dt': ARTIM - 3.5}]
            n1 = len(actions)
            actions += [{'k': 'tick', 'dt': 1.0}]
            sim = simnet.run_scenario(role, actions)
            ctx.case(('other', name, which), True, labels=['other-association-meanwhile', 'point=' + name], sample=case)
            try:
                osim = inner.get('sim')
                if osim is None or osim.outcome[0] != 'returned' or osim.final()['state'] != 1:
                    raise Violation('C13:other-association:disturbed', '%s: the association served meanwhile ended %r'
                                    % (name, osim and (osim.outcome, osim.final())), case)
                end_oracle(name, sim, case, engaged, user_ended, 'peer silent, another association served meanwhile')
                before = [s_ for s_ in sim.snaps if s_['next'] == n1]
                if not before or before[0]['state'] == 1 or not before[0]['artim']:
                    raise Violation('C13:other-association:artim', '%s: after serving another association: state Sta%s, ARTIM '
                                    'running=%s, half a second before the deadline'
                                    % (name, before[0]['state'] if before else '?', before[0]['artim'] if before else '?'), case)
            except Violation as v:
                ctx.fail(v.key, v.what, v.case)


def run_backlog(ctx, n_msgs=1100):
    """A local user that is slow to fetch: the peer pipelines n complete messages, nothing is fetched, then the
    association ends in each way.  The provider must still notice the end, return to idle and close."""
    echo = refpdu.enc_pdu(convs.echo_rq(1))
    endings = {'peer-close': [{'k': 'close', 'eager': False}],
               'peer-close-at-once': [{'k': 'close', 'eager': True}],
               'peer-abort': [{'k': 'seg', 'data': refpdu.enc_pdu(convs.ABORT_SU), 'eager': False}, {'k': 'close', 'eager': False}],
               'peer-release': [{'k': 'seg', 'data': refpdu.enc_pdu(convs.REL_RQ), 'eager': False},
                                {'k': 'user', 'prim': convs.user_prim({'pdu': convs.REL_RP})}, {'k': 'close', 'eager': False}],
               'peer-silent-after-local-abort': [{'k': 'user', 'prim': convs.user_prim({'pdu': convs.ABORT_SU})},
                                                 {'k': 'tick', 'dt': ARTIM + 1.0}],
               'kill': [{'k': 'kill'}]}
    for n in (n_msgs, 40):
        for name, ending in sorted(endings.items()):
            case = {'kind': 'backlog', 'messages': n, 'ending': name}
            actions = [{'k': 'seg', 'data': refpdu.enc_pdu(convs.RQ_SPEC), 'eager': False},
                       {'k': 'user', 'prim': convs.user_prim({'pdu': convs.AC_SPEC})}]
            chunk = 50
            for i in range(0, n, chunk):
                actions.append({'k': 'seg', 'data': echo * min(chunk, n - i), 'eager': i > 0})
            actions += ending + [{'k': 'tick', 'dt': 1.0}]
            sim = simnet.run_scenario('acceptor', actions, budget=60 * n + 20000)
            ctx.case(('backlog', n, name), True, labels=['unfetched-backlog', 'ending=' + name, 'messages=%d' % n], sample=case)
            try:
                if name == 'kill':
                    # a stop request always completes (the loop returns); nothing else is promised about it
                    if sim.outcome[0] != 'returned' or not sim.final()['loop_exited_flag']:
                        raise Violation('C13:kill:%s' % sim.outcome[0], 'stop request with %d indications not fetched: '
                                        'run() outcome %r' % (n, sim.outcome), case)
                    continue
                end_oracle('backlog-%d' % n, sim, case, True, name in ('peer-silent-after-local-abort', 'peer-release'),
                           '%d indications not fetched, then %s' % (n, name))
                got = len([i for i in sim.indications() if isinstance(i, tuple)])
                if got != n and name != 'peer-close-at-once':
                    raise Violation('C13:backlog:lost', '%d of %d pipelined messages were indicated before %s'
                                    % (got, n, name), case)
            except Violation as v:
                ctx.fail(v.key, v.what, v.case)


def full_script(steps):
    actions = []
    for s in steps:
        if s[0] == 'burst':
            actions += [{'k': 'seg', 'data': r, 'eager': False} for r in s[1]]
        elif s[0] == 'user':
            actions.append({'k': 'user', 'prim': convs.user_prim(s[1])})
        else:
            actions.append({'k': 'close', 'eager': False})
    return actions


def run_write_faults(ctx, name, role, steps, only=None):
    """The peer disconnects (resets the connection) and the local side finds out while WRITING: the k-th write of
    the conversation and everything after it fails, for every k.  Same obligations as for a disconnect seen on a
    read: loop returns, idle, transport closed, ARTIM stopped, engaged user told."""
    script = full_script(steps)
    clean = simnet.run_scenario(role, script + [{'k': 'tick', 'dt': ARTIM + 1}])
    writes = len([e for e in clean.log if e[0] == 'send'])
    for k in range(writes):
        if only is not None and only != k:
            continue
        case = {'kind': 'write-fault', 'conv': name, 'write': k}
        sim = simnet.run_scenario(role, script + [{'k': 'tick', 'dt': ARTIM + 1}], write_fault=k)
        ctx.case(('write-fault', name, k), True, labels=['write-fault', 'conv=' + name], sample=case)
        inds = [getattr(i, 'pdu_type', 'dimse') for i in sim.indications()]
        engaged = bool(inds) and inds[0] in (1, 2) or (role == 'requestor' and any(a['k'] == 'user' for a in script))
        # did the local user itself already end the association before the failing write?
        user_ended = False
        try:
            end_oracle(name, sim, case, engaged, user_ended, 'write %d of %d fails: connection reset by peer' % (k + 1, writes))
        except Violation as v:
            if v.key == 'C13:user-not-told':
                # the failing write may be the user's own A-ABORT / A-RELEASE-RP / A-ASSOCIATE-RJ: then it knows
                failing = [e for e in sim.log if e[0] == 'send-failed']
                prims = [a for a in script if a['k'] == 'user']
                if any(getattr(a['prim'], 'pdu_type', None) in (3, 6, 7) for a in prims):
                    continue
            ctx.fail(v.key.replace('C13:', 'C13:write-fault:', 1), v.what, v.case)


def _summary(sim):
    return {'outcome': sim.outcome[0], 'inds': [convs.describe_ind(i) for i in sim.indications()], 'wire': sim.wire(),
            'final': {k: v for k, v in sim.final().items() if k in ('state', 'closed', 'sock_none', 'artim')}}


def run_shutdown_fault(ctx, name, role, steps, only=None):
    """The peer has reset the connection by the time the local side closes it: a shutdown() the implementation may call
    before close() fails with ENOTCONN.  That is no event of the protocol: the conversation is indicated and ends
    exactly as without it.  (Also with the transport socket in time-out mode and partial send()s.)"""
    script = full_script(steps) + [{'k': 'tick', 'dt': ARTIM + 1}]
    want = _summary(simnet.run_scenario(role, script))
    for mode, kw in (('shutdown-enotconn', dict(shutdown_fault=True)),
                     ('timeout-mode', dict(sock_timeout=30.0, sndbuf=5)),
                     ('both', dict(shutdown_fault=True, sock_timeout=30.0, sndbuf=64))):
        if only is not None and only != mode:
            continue
        case = {'kind': 'shutdown-fault', 'conv': name, 'mode': mode}
        ctx.case(('shutdown-fault', name, mode), True, labels=['socket-environment', 'mode=' + mode, 'conv=' + name], sample=case)
        got = _summary(simnet.run_scenario(role, script, **kw))
        if got != want:
            diff = [k for k in want if want[k] != got[k]]
            ctx.fail('C13:socket-environment:%s' % diff[0], '%s with %s: %s differ from the plain run (e.g. indications %d vs %d, '
                     'outcome %s vs %s, final %r vs %r)' % (name, mode, diff, len(got['inds']), len(want['inds']), got['outcome'],
                                                            want['outcome'], got['final'], want['final']), case)


def run_slow_reader(ctx, name, role, steps, only=None):
    """The peer pauses reading for 11.5 s during the k-th local write (TCP flow control makes the write wait), for
    every k where ARTIM is not running.  A slow reader is no fault at all: the conversation must go exactly as
    without the pause.  Before this, the process carried an association of its own to completion (what one
    association does to process-wide settings must not reach the next)."""
    orole, osteps = convs.corpus()['req-echo-release']
    simnet.run_scenario(orole, full_script(osteps))
    script = full_script(steps) + [{'k': 'tick', 'dt': ARTIM + 1}]
    clean = simnet.run_scenario(role, script)
    want = _summary(clean)
    writes = len([e for e in clean.log if e[0] == 'send'])
    for k in range(writes):
        if only is not None and only != k:
            continue
        case = {'kind': 'slow-reader', 'conv': name, 'write': k}
        sim = simnet.run_scenario(role, script, stall_write=k)
        if not any(e[0] == 'stalled' for e in sim.log):
            continue            # ARTIM was running at that write: the pause would race the timer, not generated
        ctx.case(('slow-reader', name, k), True, labels=['slow-reader', 'conv=' + name], sample=case)
        got = _summary(sim)
        for field in ('outcome', 'inds', 'wire', 'final'):
            if got[field] != want[field]:
                timed_out = any(e[0] == 'send-timed-out' for e in sim.log)
                ctx.fail('C13:slow-reader:%s' % field, '%s: the peer paused reading for 11.5 s during write %d of %d%s: %s differs '
                         'from the run without the pause (ended in Sta%s, closed=%s)'
                         % (name, k + 1, writes, ' and the write gave up with a time-out (the socket was left in time-out mode)'
                            if timed_out else '', field, got['final']['state'], got['final']['closed']), case)
                break


def run_kill_stop(ctx, name, role, steps, only=None):
    base = full_script(steps)
    for i in range(len(base) + 1):
        if only is not None and only != i:
            continue
        # (iii) kill at every quiescent point
        case = {'kind': 'kill', 'conv': name, 'at': i}
        sim = simnet.run_scenario(role, full_script(steps)[:i] + [{'k': 'kill'}])
        ctx.case(('kill', name, i), True, labels=['kill', 'conv=' + name], sample=case)
        out = sim.outcome
        if out[0] != 'returned' or not sim.final()['loop_exited_flag']:
            ctx.fail('C13:kill:%s' % out[0], '%s: stop request at step %d: run() outcome %r, exit flag %s'
                     % (name, i, out, sim.final()['loop_exited_flag']), case)
        # (iv) stop() at every quiescent point: True exactly when idle
        case = {'kind': 'stop', 'conv': name, 'at': i}
        sim = simnet.run_scenario(role, full_script(steps)[:i] + [{'k': 'stop'}] + full_script(steps)[i:] +
                                  [{'k': 'close', 'eager': False}, {'k': 'tick', 'dt': ARTIM + 1}])
        ctx.case(('stop', name, i), True, labels=['stop', 'conv=' + name], sample=case)
        if sim.outcome[0] != 'returned':
            ctx.fail('C13:stop:%s' % sim.outcome[0], '%s: stop() at step %d: run() outcome %r' % (name, i, sim.outcome), case)
        for state, res in sim.stop_results:
            if bool(res) != (state == 1):
                ctx.fail('C13:stop-result', '%s: stop() returned %r in Sta%s' % (name, res, state), case)
            if res and (not sim.final()['loop_exited_flag'] or (sim.stopped_at is not None and sim.next != sim.stopped_at)):
                ctx.fail('C13:stop-exit', '%s: stop() returned True but the loop did not exit (it went on to take %d more '
                         'scripted steps)' % (name, sim.next - (sim.stopped_at or sim.next)), case)


def run_conv(ctx, job):
    quiet_warnings()
    role, steps = corpus(job['thorough'])[job['conv']]
    run_disconnects(ctx, job['conv'], role, steps)
    run_write_faults(ctx, job['conv'], role, steps)
    run_slow_reader(ctx, job['conv'], role, steps)
    run_shutdown_fault(ctx, job['conv'], role, steps)
    run_kill_stop(ctx, job['conv'], role, steps)


def run_assoc_kill(ctx):
    """Association.kill() returns whatever stop() says (no real sleeping: time is patched)."""
    from pynetdicom2 import asceprovider

    class Dul(object):
        def __init__(self, idle_after):
            self.calls = 0
            self.idle_after = idle_after
            self.killed = False

        def stop(self):
            self.calls += 1
            return self.idle_after is not None and self.calls > self.idle_after

        def kill(self):
            self.killed = True

    class FakeTime(object):
        slept = 0.0

        def sleep(self, dt):
            FakeTime.slept += dt

        def time(self):
            return 0.0

    saved = asceprovider.time
    asceprovider.time = FakeTime()
    try:
        for idle_after in (0, 3, 500, None):
            assoc = asceprovider.Association.__new__(asceprovider.Association)
            assoc.dul = Dul(idle_after)
            assoc.association_established = True
            case = {'kind': 'assoc-kill', 'idle_after': idle_after}
            ctx.case(('assoc-kill', idle_after), True, labels=['association-kill'], sample=case)
            try:
                assoc.kill()
            except Exception as exc:
                ctx.fail('C13:assoc-kill:exception', 'Association.kill() raised %r' % (exc,), case)
                continue
            if not assoc.dul.killed or assoc.association_established:
                ctx.fail('C13:assoc-kill', 'Association.kill(): provider killed=%s, established=%s'
                         % (assoc.dul.killed, assoc.association_established), case)
    finally:
        asceprovider.time = saved


def run(ctx):
    quiet_warnings()
    c = corpus(ctx.thorough)
    ctx.exhaustive = True
    ctx.rule = ('for each of %d conversations (both roles): peer disconnect after EVERY byte prefix of the peer\'s '
                'stream, with and without the next local step racing the disconnect; the disconnect surfacing as a failure of the k-th local write, for every k; the peer pausing 11.5 s during the k-th write (after the process carried another association); peer silence at each of 13 '
                'points where ARTIM is armed (with a silent peer, a chattering peer and a peer that stalls in the middle of a PDU), checked just before and '
                'just after the deadline; the last PDU of the peer (A-ABORT / A-RELEASE-RP / A-ASSOCIATE-RJ) followed in the same burst by up to 200 kB it still had in flight, the peer then never closing; another association served to completion in the same process while a provider waits on ARTIM; a local user that fetches nothing while the peer pipelines 40 / 1100 messages, followed by each way of ending; a stop request (kill) and stop() at every quiescent point of every '
                'conversation; Association.kill() for both stop() outcomes; non-trivial = cut strictly inside the '
                'conversation, or a silence/kill/stop variant; distinct by (kind, conversation, position)' % len(c))
    ctx.assumptions = ['"bounded time" is simulated time; an unresponsive peer is modelled as silence',
                       'the real DULServiceProvider.run() executes unmodified under vf/simnet.py',
                       'exhaustive over the scenario corpus, not over all conversations']
    parallel(ctx, run_conv, [{'conv': n, 'thorough': ctx.thorough} for n in sorted(c)])
    # the smaller parts run in worker shards as well, once per ambient condition of the runner (shard index mod 4:
    # plain, library warnings as errors, plain, DEBUG logging)
    parts = ('silence', 'trailing', 'other', 'backlog', 'assoc_kill')
    parallel(ctx, run_part, [{'part': p_, 'ambient': k} for p_ in parts for k in range(4)])


def run_part(ctx, job):
    quiet_warnings()
    from ..common import set_warnings, _AMBIENT
    set_warnings(_AMBIENT['warnings_default'])        # (after the blanket 'ignore' above)
    {'silence': run_silence, 'trailing': run_trailing, 'other': run_other_association, 'backlog': run_backlog,
     'assoc_kill': run_assoc_kill}[job['part']](ctx)


def replay(case):
    quiet_warnings()
    from ..common import Ctx
    sub = Ctx('C13', 'quick', 1)
    k = case['kind']
    if k in ('disconnect', 'kill', 'stop', 'write-fault', 'slow-reader', 'shutdown-fault'):
        role, steps = corpus(True)[case['conv']]
        if k == 'disconnect':
            run_disconnects(sub, case['conv'], role, steps, (case['cut'], case['user_after']))
        elif k == 'write-fault':
            run_write_faults(sub, case['conv'], role, steps, case['write'])
        elif k == 'slow-reader':
            run_slow_reader(sub, case['conv'], role, steps, case['write'])
        elif k == 'shutdown-fault':
            run_shutdown_fault(sub, case['conv'], role, steps, case['mode'])
        else:
            run_kill_stop(sub, case['conv'], role, steps, case['at'])
    elif k == 'silence':
        run_silence(sub, (case['point'], case['chatter']))
    elif k == 'trailing':
        run_trailing(sub, (case['point'], case['trail'], case['split']))
    elif k == 'other-association':
        run_other_association(sub)
    elif k == 'backlog':
        run_backlog(sub)
    else:
        run_assoc_kill(sub)
    for key, ent in sorted(sub.failures.items()):
        raise Violation(key, ent['what'], ent['case'])
