"""Run checks against the independently written breaking changes under /verif/seeded/<name>/.

    python -m vf.tools.seeded [name ...] [--tier quick|thorough] [--all-checks] [--record] [--jobs N]

For each seeded change: copy /repo's tree to a scratch directory, apply patch.diff there, confirm the
demonstration (demo.py exits 1 on the changed copy and 0 on /repo), run the property's check (and, with
--all-checks, every check) with VERIF_REPO pointing at the copy, and report which checks raise a
violation.  Nothing is ever applied to /repo itself; scratch copies are removed.
"""
import json
import os
import shutil
import subprocess
import sys
import tempfile
import time

VERIF = os.path.dirname(os.path.dirname(os.path.dirname(os.path.abspath(__file__))))
REPO = '/repo'
ALL = ['C%02d' % i for i in range(1, 21)]


def scratch_copy(patch, base=None):
    """Copy of /repo's working tree (or, for a change whose trigger a later fix removed, of the commit `base` it
    was written against) with the patch applied; patch=None gives the pristine copy."""
    tmp = tempfile.mkdtemp(prefix='vfseed_')
    if base:
        ar = subprocess.run(['git', '-C', REPO, 'archive', base, 'pynetdicom2', 'tests'], capture_output=True, check=True)
        subprocess.run(['tar', '-x', '-C', tmp], input=ar.stdout, check=True)
    else:
        for name in ('pynetdicom2', 'tests'):
            shutil.copytree(os.path.join(REPO, name), os.path.join(tmp, name))
    if patch is None:
        return tmp
    res = subprocess.run(['patch', '-p1', '-s', '-i', patch], cwd=tmp, capture_output=True, text=True)
    if res.returncode != 0:
        shutil.rmtree(tmp, ignore_errors=True)
        raise RuntimeError('patch does not apply: %s %s' % (res.stdout, res.stderr))
    return tmp


def run_check(prop, tree, tier):
    env = dict(os.environ, VERIF_REPO=tree, VERIF_OUT=os.path.join(tree, 'out'), PYTHONHASHSEED='0',
               PYTHONDONTWRITEBYTECODE='1')
    t0 = time.time()
    res = subprocess.run(['/venv/bin/python', '-m', 'vf.run', prop, '--tier', tier], cwd=VERIF, env=env,
                         capture_output=True, text=True)
    keys = [l.strip()[:160] for l in res.stdout.splitlines() if l.strip().startswith('key=')]
    return res.returncode, time.time() - t0, keys


def evaluate(args):
    name, tier, all_checks, record = args
    base = os.path.join(VERIF, 'seeded')
    d = os.path.join(base, name)
    meta = json.load(open(os.path.join(d, 'meta.json')))
    prop = meta['property']
    out = []
    base = meta.get('base')
    try:
        tree = scratch_copy(os.path.join(d, 'patch.diff'), base)
    except RuntimeError as exc:
        return name, ['%-14s %s PATCH-ERROR %s' % (name, prop, exc)], None
    pristine = scratch_copy(None, base) if base else REPO
    try:
        demo = os.path.join(d, 'demo.py')
        r1 = subprocess.run(['/venv/bin/python', demo, tree], capture_output=True, text=True, timeout=300)
        r0 = subprocess.run(['/venv/bin/python', demo, pristine], capture_output=True, text=True, timeout=300)
        tests = subprocess.run(['/venv/bin/python', '-m', 'pytest', '-q', '-p', 'no:cacheprovider',
                                'tests/test_pdu.py', 'tests/test_dimsemessages.py'], cwd=tree,
                               capture_output=True, text=True)
        line = (tests.stdout.strip().splitlines() or ['?'])[-1]
        out.append('%-14s %s demo(changed)=%d demo(repo)=%d tests: %s' % (name, prop, r1.returncode, r0.returncode, line))
        props = ALL if all_checks else [prop] + [p for p in meta.get('also_run', []) if p != prop]
        checks = []
        for p in props:
            rc, dt, keys = run_check(p, tree, tier)
            verdict = {0: 'quiet', 1: 'VIOLATION', 2: 'HARNESS-ERROR'}.get(rc, 'rc=%d' % rc)
            out.append('    %s %-9s %-13s (%.0fs) %s' % (p, tier, verdict, dt, keys[0] if keys else ''))
            checks.append({'check': p, 'tier': tier, 'verdict': verdict, 'seconds': int(dt),
                           'first_key': keys[0] if keys else ''})
        verified = {'applied_to': 'scratch copy of /repo%s (never /repo itself)' % (' at commit ' + base if base else ''),
                    'stable_tests': line,
                    'demo_exit_changed': r1.returncode, 'demo_exit_unchanged': r0.returncode, 'checks': checks}
        if record:
            meta['verified'] = verified
            with open(os.path.join(d, 'meta.json'), 'w') as fh:
                json.dump(meta, fh, indent=1)
        return name, out, verified
    finally:
        shutil.rmtree(tree, ignore_errors=True)
        if base:
            shutil.rmtree(pristine, ignore_errors=True)


def write_index():
    base = os.path.join(VERIF, 'seeded')
    lines = ['# Seeded breaking changes (written by sub-agents that saw only the property text)', '',
             'Each directory holds patch.diff (against the /repo tree at the time; rebased by hand where a later fix '
             'touched the same lines), demo.py (exit 1 on the changed tree, 0 on /repo), meta.json.',
             'Verified by `python -m vf.tools.seeded --record`: patch applied to a scratch copy, the 70 stable tests '
             'pass, demo exit codes, verdict of the quick tier of the listed checks.', '',
             '| seed | property | what it does | needs | caught by | quiet | note |', '|---|---|---|---|---|---|---|']
    for name in sorted(os.listdir(base)):
        mp = os.path.join(base, name, 'meta.json')
        if not os.path.exists(mp):
            continue
        m = json.load(open(mp))
        v = m.get('verified') or {}
        caught = ', '.join('%s %s (%ds)' % (c['check'], c['tier'], c['seconds']) for c in v.get('checks', [])
                           if c['verdict'] == 'VIOLATION')
        quiet = ', '.join(c['check'] for c in v.get('checks', []) if c['verdict'] != 'VIOLATION')
        cell = lambda t: str(t or '').replace('|', '/').replace('\n', ' ')
        lines.append('| %s | %s | %s | %s | %s | %s | %s |' % (name, m['property'], cell(m.get('summary'))[:400],
                                                            cell(m.get('needs'))[:300], caught or '**none**', quiet,
                                                            cell(m.get('note'))))
    with open(os.path.join(base, 'INDEX.md'), 'w') as fh:
        fh.write('\n'.join(lines) + '\n')


def main(argv):
    tier = 'quick'
    all_checks = record = False
    jobs = 1
    names = []
    it = iter(argv)
    for a in it:
        if a == '--tier':
            tier = next(it)
        elif a == '--all-checks':
            all_checks = True
        elif a == '--record':
            record = True
        elif a == '--jobs':
            jobs = int(next(it))
        else:
            names.append(a)
    base = os.path.join(VERIF, 'seeded')
    names = names or sorted(d for d in os.listdir(base) if os.path.isdir(os.path.join(base, d)))
    work = [(n, tier, all_checks, record) for n in names]
    missed = []
    if jobs > 1:
        import multiprocessing
        with multiprocessing.Pool(jobs) as pool:
            results = pool.imap(evaluate, work)
            results = list(results)
    else:
        results = map(evaluate, work)
    for name, out, verified in results:
        print('\n'.join(out), flush=True)
        if verified is None or not any(c['verdict'] == 'VIOLATION' for c in verified['checks']):
            missed.append(name)
    print('%d seeded changes evaluated, not caught: %s' % (len(names), ', '.join(missed) or 'none'))
    if record:
        write_index()
    return 0


if __name__ == '__main__':
    sys.exit(main(sys.argv[1:]))
