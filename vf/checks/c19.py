"""C19 - retrieve (C-GET / C-MOVE) performs each sub-operation exactly once and reports true progress."""
from __future__ import annotations

import itertools
import os
import warnings

from hypothesis import strategies as st

from .. import fakedul as fd, refcmd, refpdu, svc
from ..common import Violation, HarnessError, hyp_search, parallel, lib_frame, quiet_warnings
from .c17 import alias, REMOTE

LEVEL = 'exploration'
PROP = 'C19'
OUTCOME_STATUS = {'s': 0x0000, 'w': 0xB000, 'f': 0xA700}


# ------------------------------------------------------------------------------------------------
# C-MOVE provider

def move_case(n, outcomes, msg_id=5, pc_id=1, default_handler=False, declared=None, lazy=False, confirm_release=True):
    """n data sets supplied by the application, outcomes: string over 's','w','f' per sub-operation."""
    from pynetdicom2 import sopclass
    case = {'kind': 'move', 'n': n, 'outcomes': outcomes, 'msg_id': msg_id, 'pc_id': pc_id, 'default': default_handler,
            'lazy': lazy, 'confirm_release': confirm_release, 'declared': declared}
    dss = [svc.simple_ds(PatientName='P%d' % i, PatientID='ID%d' % i, SOPClassUID=svc.SC_STORAGE,
                         SOPInstanceUID='1.2.826.0.1.3680043.9.19.%d' % (i + 1)) for i in range(n)]
    handlers = {}
    if not default_handler:
        handlers['on_receive_move'] = lambda ctx, ds, dest: (dict(REMOTE), n if declared is None else declared, iter(dss))
    ae = svc.make_server(handlers, [sopclass.qr_move_scp])
    ae.add_scu(sopclass.storage_scu, [svc.SC_STORAGE])
    req = {0x0002: svc.PATIENT_MOVE, 0x0100: 0x0021, 0x0110: msg_id, 0x0600: 'DEST', 0x0700: 0}
    ident = svc.enc_ds(svc.simple_ds(PatientID='1', QueryRetrieveLevel='PATIENT'))
    statuses = [OUTCOME_STATUS[o] for o in outcomes] or [0]
    try:
        acc, fac, exc = fd.run_acceptor(ae, [svc.primary_plan([(pc_id, svc.PATIENT_MOVE)], [(req, ident, pc_id)]),
                                             svc.sub_plan(statuses, confirm_release=confirm_release)], lazy=lazy)
    finally:
        ae.server_close()
    from pynetdicom2 import exceptions as _ex
    if exc is not None and not (not confirm_release and n > 0 and isinstance(exc, _ex.NetDICOMError)):
        raise Violation('%s:move:exception:%s' % (PROP, lib_frame(exc)),
                        'C-MOVE provider (n=%d%s) raised %r' % (n, ', default handler' if default_handler else '', exc), case)
    primary = fac.instances[0]
    rsps = primary.sent_msgs()
    finals = [r for r in rsps if r['fields'].get(0x0900) != 0xFF00]
    if len(finals) != 1 or (rsps and finals[0] is not rsps[-1]):
        raise Violation('%s:move:final-count' % PROP, 'n=%d: response statuses %r - need exactly one final response, last'
                        % (n, [r['fields'].get(0x0900) for r in rsps]), case)
    for r in rsps:
        svc.check_response(PROP, req, r, pc_id, lambda s: isinstance(s, int), case)
    pend = rsps[:-1]
    if len(pend) != n:
        raise Violation('%s:move:pending-count' % PROP, '%d sub-operations, %d pending responses' % (n, len(pend)), case)
    fcount = wcount = 0
    for k, r in enumerate(pend, 1):
        f = r['fields']
        o = outcomes[k - 1]
        fcount += o == 'f'
        wcount += o == 'w'
        rem, comp, fail, warn = f.get(0x1020), f.get(0x1021), f.get(0x1022), f.get(0x1023)
        performed_ok = comp == k or (None not in (comp, fail, warn) and comp + fail + warn == k)
        if rem != n - k or not performed_ok:
            raise Violation('%s:move:progress' % PROP,
                            'after sub-operation %d of %d: remaining=%r completed=%r failed=%r warning=%r'
                            % (k, n, rem, comp, fail, warn), case)
        if fail != fcount or warn != wcount:
            raise Violation('%s:move:progress-outcomes' % PROP,
                            'after sub-operation %d (%s): failed=%r warning=%r, actually %d failed, %d warnings'
                            % (k, outcomes[:k], fail, warn, fcount, wcount), case)
    # sub-association
    if n == 0:
        if len(fac.instances) > 1 and fac.instances[1].sent_msgs():
            raise Violation('%s:move:phantom-suboperation' % PROP, 'nothing to move, yet messages were sent to the destination', case)
        return
    if len(fac.instances) != 2:
        raise Violation('%s:move:associations' % PROP, '%d associations opened for the sub-operations' % (len(fac.instances) - 1), case)
    sub = fac.instances[1]
    rq = sub.sent_pdus(1)
    addr = getattr(rq[0]['obj'], 'called_presentation_address', None) if rq else None
    if not rq or refpdu.ae_norm(rq[0]['spec']['called']) != REMOTE['aet'] or addr != (REMOTE['address'], REMOTE['port']):
        raise Violation('%s:move:destination' % PROP, 'sub-operations sent to %r at %r'
                        % (rq and rq[0]['spec'].get('called'), addr), case)
    stores = sub.sent_msgs()
    if [s['fields'].get(0x0100) for s in stores] != [0x0001] * n:
        raise Violation('%s:move:store-count' % PROP, '%d instances supplied, messages sent to the destination: %r'
                        % (n, ['%04X' % (s['fields'].get(0x0100) or 0) for s in stores]), case)
    for i, (s, ds) in enumerate(zip(stores, dss)):
        if s['fields'].get(0x1000) != str(ds.SOPInstanceUID) or s['fields'].get(0x0002) != svc.SC_STORAGE:
            raise Violation('%s:move:store-order' % PROP, 'sub-operation %d carries instance %r, expected %r'
                            % (i + 1, s['fields'].get(0x1000), str(ds.SOPInstanceUID)), case)
        ctx = sub.accepted_contexts.get(s['pc_ids'][0]) if s['pc_ids'] else None
        if ctx is None or str(ctx.sop_class) != svc.SC_STORAGE:
            raise Violation('%s:move:store-context' % PROP, 'sub-operation %d sent on context %r' % (i + 1, s['pc_ids']), case)
        if not svc.wire_ds_equal(s['data'] or b'', str(ctx.supported_ts), ds):
            raise Violation('%s:move:store-content' % PROP, 'sub-operation %d: data set differs from the supplied one' % (i + 1), case)


# ------------------------------------------------------------------------------------------------
# C-GET user

def get_case(script, handler_outcomes, final_status, file_backed, msg_id=9, consume='all', cross=False):
    """script: list of 'S' (a C-STORE-RQ from the peer) and 'P' (a pending C-GET-RSP) in peer order;
    handler_outcomes: per 'S' one of 's','w','f','raise'."""
    from pynetdicom2 import applicationentity, sopclass, statuses, dimsemessages, exceptions
    case = {'kind': 'get', 'script': script, 'handler_outcomes': handler_outcomes, 'final_status': final_status,
            'file_backed': file_backed, 'msg_id': msg_id, 'cross': cross}
    nstore = script.count('S')
    sops = [svc.SC_STORAGE, svc.CT_STORAGE]
    dss = [svc.simple_ds(PatientName='G%d' % i, PatientID='X' * (i + 1), SOPClassUID=sops[i % 2],
                         SOPInstanceUID='1.2.826.0.1.3680043.9.19.7.%d' % (i + 1)) for i in range(nstore)]
    handled = []
    archive = {'path': None, 'starts': []}

    def on_store(ctx, ds):
        i = len(handled)
        handled.append(i)
        o = handler_outcomes[i]
        if o == 'raise':
            if hasattr(ds, 'read') and (i + msg_id) % 2 == 0:
                ds.close()          # (looked at it, closed it, rejected it)
            raise exceptions.EventHandlingError('scripted')
        if file_backed and hasattr(ds, 'read') and (i + msg_id) % 3 == 0:
            # a handler that copies the instance away and closes the file it was given
            with ds:
                archive.setdefault('copied', []).append(ds.read())
        return statuses.Status(OUTCOME_STATUS[o], dimsemessages.CStoreRSPMessage)

    class Client(applicationentity.ClientAE):
        def on_receive_store(self, ctx, ds):
            return on_store(ctx, ds)

        def get_file(self, context, command_set):
            if file_backed != 'archive':
                return applicationentity.ClientAE.get_file(self, context, command_set)
            # the application keeps everything it retrieves in ONE spool file: each instance starts where the
            # previous one ended, and that is the start position reported to the library
            import tempfile
            if archive['path'] is None:
                fd_, archive['path'] = tempfile.mkstemp(prefix='vf_c19_')
                os.close(fd_)
            fp = open(archive['path'], 'a+b')
            fp.seek(0, 2)
            start = fp.tell()
            archive['starts'].append(start)
            applicationentity.write_meta(fp, command_set, context.supported_ts)
            return fp, start
    ae = Client('CLI', [svc.IMPLICIT])
    ae.timeout = 0.01
    ae.add_scu(sopclass.qr_get_scu)
    store_alias = alias(sopclass.storage_scu, [], False)
    if file_backed and file_backed != 'late':
        store_alias.store_in_file = True
    if file_backed == 'mixed':
        # one class is spooled to files, the other kept in memory - both arrive in the same C-GET
        ae.add_scu(store_alias, sops[:1])
        ae.add_scu(alias(sopclass.storage_scu, [], False), sops[1:])
    else:
        ae.add_scu(store_alias, sops)
    state = {'ids': {}, 'store_reqs': []}

    def responder(dul, rec):
        if rec['kind'] == 'pdu':
            t = rec['spec'].get('t')
            if t == 1:
                pcs = [it for it in rec['spec']['items'] if it['t'] == 0x20]
                for it in pcs:
                    state['ids'][it['abs']['name']] = it['id']
                return [fd.incoming_pdu(fd.ac_spec([(it['id'], 0, it['ts'][0]['name']) for it in pcs], 16384))]
            if t == 5:
                return [fd.incoming_pdu({'t': 6, 'r1': 0, 'r2': 0})]
            return []
        if rec['fields'].get(0x0100) == 0x0010:          # the C-GET-RQ: play the whole peer script
            state['get_rq'] = rec
            out = []
            si = 0
            get_id = rec['fields'].get(0x0110)
            get_pc = rec['pc_ids'][0]
            for step in script:
                if step == 'S':
                    ds = dss[si]
                    pc = state['ids'][str(ds.SOPClassUID)]
                    if cross and si >= 2 and file_backed != 'mixed':
                        # from the third instance on the peer uses the OTHER storage context it negotiated (same transfer
                        # syntax, same storage mode): a class arrives on a context it did not arrive on before, and the
                        # answer belongs on the context each request arrived on
                        pc = state['ids'][str(dss[si - 1].SOPClassUID)]
                    f = {0x0002: str(ds.SOPClassUID), 0x0100: 0x0001, 0x0110: 100 + si * 257, 0x0700: 0,
                         0x1000: str(ds.SOPInstanceUID)}
                    state['store_reqs'].append((f, pc))
                    out.append((lambda f=f, d=svc.enc_ds(ds), pc=pc: fd.incoming_msg(dul, f, d, pc)))
                    si += 1
                else:
                    f = {0x0002: svc.PATIENT_GET, 0x0100: 0x8010, 0x0120: get_id, 0x0900: 0xFF00,
                         0x1020: nstore - si, 0x1021: si, 0x1022: 0, 0x1023: 0}
                    out.append((lambda f=f: fd.incoming_msg(dul, f, None, get_pc)))
            f = {0x0002: svc.PATIENT_GET, 0x0100: 0x8010, 0x0120: get_id, 0x0900: final_status,
                 0x1021: nstore, 0x1022: 0, 0x1023: 0}
            out.append((lambda f=f: fd.incoming_msg(dul, f, None, get_pc)))
            return out
        return []
    fac = fd.Factory([lambda d: setattr(d, 'responder', responder)])
    yielded = []
    try:
        with fd.installed(fac):
            with ae.request_association({'aet': 'SRV', 'address': 'peer.example', 'port': 104}) as assoc:
                dul = fac.instances[0]
                if file_backed == 'late':
                    # the application decides to spool these classes to files when the association is already open
                    ae.update_context_def_list(sops, store_in_file=True)
                gen = assoc.get_scu(svc.PATIENT_GET)(svc.simple_ds(PatientID='1', QueryRetrieveLevel='PATIENT'), msg_id)
                for ctx, item in gen:
                    if hasattr(item, 'read'):
                        if item.closed:
                            yielded.append(('file', archive['copied'][len([1 for y in yielded if y[0] == 'file' and y[2]])], True))
                        else:
                            yielded.append(('file', item.read(), False))
                            item.close()
                    else:
                        yielded.append(('ds', item, False))
                calls_at_end = dul.receive_calls
                timeouts_at_end = dul.timeouts
    except Violation:
        raise
    except Exception as exc:
        if archive['path'] and os.path.exists(archive['path']):
            os.unlink(archive['path'])
        raise Violation('%s:get:exception:%s' % (PROP, lib_frame(exc)), 'C-GET user raised %r' % (exc,), case)
    if timeouts_at_end:
        raise Violation('%s:get:reads-past-final' % PROP, 'the C-GET user kept receiving after the final response', case)
    if dul.inbox:
        raise Violation('%s:get:ended-early' % PROP, 'iteration ended with %d peer messages unread' % len(dul.inbox), case)
    # responses to the C-STORE sub-operations
    rsps = [r for r in dul.sent_msgs() if r['fields'].get(0x0100) == 0x8001]
    if len(rsps) != nstore:
        raise Violation('%s:get:store-responses' % PROP, '%d C-STORE requests, %d C-STORE responses' % (nstore, len(rsps)), case)
    for i, ((f, pc), rsp) in enumerate(zip(state['store_reqs'], rsps)):
        o = handler_outcomes[i]
        if o == 'raise':
            from .c17 import is_failure_for
            ok = is_failure_for(0x8001)
        else:
            ok = (lambda want: lambda s: s == want)(OUTCOME_STATUS[o])
        svc.check_response(PROP, f, rsp, pc, ok, case, what='C-GET sub-operation %d: ' % (i + 1))
    others = [r for r in dul.sent_msgs() if r['fields'].get(0x0100) not in (0x8001, 0x0010)]
    if others:
        raise Violation('%s:get:unexpected-messages' % PROP, 'C-GET user also sent %r'
                        % (['%04X' % (r['fields'].get(0x0100) or 0) for r in others],), case)
    # what the caller was handed
    want = [i for i in range(nstore) if handler_outcomes[i] != 'raise']
    if len(yielded) != len(want):
        raise Violation('%s:get:yield-count' % PROP, '%d instances received and handled, %d handed to the caller'
                        % (len(want), len(yielded)), case)
    if archive['path']:
        os.unlink(archive['path'])
    for (kind, item, _closed), i in zip(yielded, want):
        ds = dss[i]
        if file_backed and not (file_backed == 'mixed' and i % 2 == 1):
            if kind != 'file':
                raise Violation('%s:get:yield-type' % PROP, 'file-backed class delivered as %s' % kind, case)
            import io
            import pydicom
            got = pydicom.dcmread(io.BytesIO(item))
            fm = got.file_meta
            got_ds = pydicom.dataset.Dataset({k: v for k, v in got.items()})
            if str(fm.MediaStorageSOPInstanceUID) != str(ds.SOPInstanceUID) or not svc.ds_equal(got_ds, ds):
                raise Violation('%s:get:yield-content' % PROP, 'instance %d handed to the caller differs from the one sent' % (i + 1), case)
        else:
            if kind != 'ds' or not svc.ds_equal(item, ds):
                raise Violation('%s:get:yield-content' % PROP, 'instance %d handed to the caller differs from the one sent' % (i + 1), case)
    if len(handled) != nstore:
        raise Violation('%s:get:handler-calls' % PROP, 'on_receive_store called %d times for %d instances' % (len(handled), nstore), case)


# ------------------------------------------------------------------------------------------------

def repeated_moves(nmoves, creds, lazy=False):
    """Several C-MOVE requests on one association, all to the same destination, which the application describes
    with ONE dict it keeps in its registry of known nodes (AE title, address, port, optionally user name and
    password).  Every move goes to the destination as designated - with the same credentials every time."""
    from pynetdicom2 import sopclass
    case = {'kind': 'repeated-moves', 'moves': nmoves, 'creds': creds, 'lazy': lazy}
    dest = dict(REMOTE)
    if creds >= 1:
        dest['username'] = 'mover'
    if creds >= 2:
        dest['password'] = 's3cret'
    per_move = [[svc.simple_ds(PatientName='P%d' % i, PatientID='M%d' % m, SOPClassUID=svc.SC_STORAGE,
                               SOPInstanceUID='1.2.826.0.1.3680043.9.19.%d.%d' % (m + 1, i + 1)) for i in range(2)]
                for m in range(nmoves)]
    calls = []

    def on_move(ctx, ds, destination):
        m = len(calls)
        calls.append(destination)
        return dest, 2, iter(per_move[m])
    ae = svc.make_server({'on_receive_move': on_move}, [sopclass.qr_move_scp])
    ae.add_scu(sopclass.storage_scu, [svc.SC_STORAGE])
    ident = svc.enc_ds(svc.simple_ds(PatientID='1', QueryRetrieveLevel='PATIENT'))
    reqs = [{0x0002: svc.PATIENT_MOVE, 0x0100: 0x0021, 0x0110: 10 + m, 0x0600: 'DEST', 0x0700: 0} for m in range(nmoves)]
    try:
        acc, fac, exc = fd.run_acceptor(ae, [svc.primary_plan([(1, svc.PATIENT_MOVE)], [(r, ident, 1) for r in reqs])] +
                                        [svc.sub_plan([0]) for _ in range(nmoves)], lazy=lazy)
    finally:
        ae.server_close()
    if exc is not None:
        raise Violation('%s:repeated-moves:exception:%s' % (PROP, lib_frame(exc)), '%d moves to one destination raised %r'
                        % (nmoves, exc), case)
    if len(fac.instances) != 1 + nmoves:
        raise Violation('%s:repeated-moves:associations' % PROP, '%d moves, %d sub-associations' % (nmoves, len(fac.instances) - 1), case)
    finals = [r for r in fac.instances[0].sent_msgs() if r['fields'].get(0x0900) != 0xFF00]
    if [r['fields'].get(0x0120) for r in finals] != [10 + m for m in range(nmoves)]:
        raise Violation('%s:repeated-moves:finals' % PROP, 'final responses for message ids %r'
                        % [r['fields'].get(0x0120) for r in finals], case)
    for m in range(nmoves):
        sub = fac.instances[1 + m]
        rq = sub.sent_pdus(1)
        if not rq or rq[0]['spec'].get('t') != 1:
            raise Violation('%s:repeated-moves:no-request' % PROP, 'move %d: no A-ASSOCIATE-RQ to the destination' % (m + 1), case)
        ident_items = [s_ for it in rq[0]['spec']['items'] if it['t'] == 0x50 for s_ in it['subs'] if s_['t'] == 0x58]
        want = [] if creds == 0 else [(1, 'mover', '')] if creds == 1 else [(2, 'mover', 's3cret')]
        got = [(i['type'], i['prim'], i['sec']) for i in ident_items]
        if got != want:
            raise Violation('%s:repeated-moves:credentials' % PROP, 'move %d of %d: the destination was designated with %s, the '
                            'sub-association presents %r' % (m + 1, nmoves, 'user name and password' if creds == 2 else
                                                             'user name' if creds else 'no identity', got), case)
        stores = [s_['fields'].get(0x1000) for s_ in sub.sent_msgs()]
        if stores != [str(d.SOPInstanceUID) for d in per_move[m]]:
            raise Violation('%s:repeated-moves:stores' % PROP, 'move %d: instances sent %r' % (m + 1, stores), case)


def run_move_enum(ctx, job):
    quiet_warnings()
    for n in job['ns']:
        for outcomes in itertools.product('swf', repeat=n):
            oc = ''.join(outcomes)
            for mid, pc in ((5, 1), (65535, 255)) if n <= 2 else ((5, 1),):
                ctx.case(('move', n, oc, mid), n == 0 or (n >= 2 and len(set(oc)) > 1),
                         labels=['move', 'n=%d' % n], sample={'n': n, 'outcomes': oc, 'msg_id': mid})
                ctx.check(move_case, n, oc, mid, pc)
                ctx.check(move_case, n, oc, mid, pc, False, None, True)      # slow provider thread
                if n and n <= 3:
                    # the destination takes everything but never confirms the release of its association
                    ctx.check(move_case, n, oc, mid, pc, False, None, len(oc) % 2 == 0, False)
    if 0 in job['ns']:
        ctx.case(('move', 'default-handler'), True, labels=['move', 'default-handler'])
        ctx.check(move_case, 0, '', 5, 1, True)
        # the application announced instances but supplies none (they were deleted meanwhile, say): still nothing to
        # move, still exactly one final response
        for declared in (1, 3):
            for lazy in (False, True):
                ctx.case(('move', 'announced-but-none', declared, lazy), True, labels=['move', 'announced-but-none'],
                         sample={'announced': declared, 'supplied': 0})
                ctx.check(move_case, 0, '', 5, 1, False, declared, lazy)


def run_random(ctx, n):
    move = st.tuples(st.just('move'), st.integers(5, 8).flatmap(
        lambda k: st.tuples(st.just(k), st.text('swf', min_size=k, max_size=k))), st.integers(0, 65535),
        st.integers(0, 127).map(lambda x: 2 * x + 1))
    get = st.tuples(st.just('get'), st.lists(st.sampled_from('SSSP'), min_size=0, max_size=8).map(''.join),
                    st.lists(st.sampled_from(['s', 's', 'w', 'f', 'raise']), min_size=8, max_size=8),
                    st.sampled_from([0x0000, 0xB000, 0xA701, 0xC000, 0xFE00]), st.sampled_from([False, True, 'archive', 'late', 'mixed']), st.integers(0, 65535),
                    st.booleans())

    def fn(value):
        if value[0] == 'move':
            _, (k, oc), mid, pc = value
            ctx.case(value, len(set(oc)) > 1, labels=['move', 'n=5+'], sample={'n': k, 'outcomes': oc})
            move_case(k, oc, mid, pc)
            move_case(k, oc, mid, pc, lazy=True)
        else:
            _, script, hos, final, fb, mid, cross = value
            ns = script.count('S')
            ctx.case(value, ns >= 2 or 'P' in script, labels=['get', 'stores=%d' % ns, 'file' if fb else 'memory'] +
                     (['get: class arriving on a second context'] if cross and ns >= 3 and fb != 'mixed' else []),
                     sample={'script': script, 'handler_outcomes': hos[:ns], 'final': final, 'file_backed': fb, 'cross': cross})
            get_case(script, hos, final, fb, mid, cross=cross)
    hyp_search(ctx, st.one_of(move, get, get), fn, n, name='C19-random', max_buckets=8)


def run_get_enum(ctx):
    for script in ('', 'S', 'SP', 'PS', 'SS', 'SPS', 'PSSP', 'SSS', 'PPSPS', 'SSPSS'):
        for fb in (False, True, 'archive', 'late', 'mixed'):
            for hi, hos in enumerate((['s'] * 8, ['w', 'f', 's', 'raise'] * 2, ['raise'] * 8)):
                ctx.case(('get', script, fb, hos[0]), script.count('S') >= 2 or 'P' in script,
                         labels=['get', 'enum', ('spool-file' if fb == 'archive' else 'file') if fb else 'memory'],
                         sample={'script': script, 'file_backed': fb, 'handler_outcomes': hos[:script.count('S')]})
                ctx.check(get_case, script, hos, 0x0000, fb, 9 + hi + len(script))
                if script.count('S') >= 3 and fb != 'mixed':
                    ctx.case(('get', script, fb, hos[0], 'cross'), True, labels=['get', 'enum', 'get: class arriving on a second context'],
                             sample={'script': script, 'file_backed': fb, 'cross': True})
                    ctx.check(get_case, script, hos, 0x0000, fb, 9 + hi + len(script), cross=True)


def shard(ctx, job):
    quiet_warnings()
    run_random(ctx, job['n'])


def run(ctx):
    quiet_warnings()
    ctx.rule = ('C-MOVE provider: every outcome string over {success, warning, failure} for 0-4 sub-operations '
                '(exhaustive), sampled for 5-8, the default handler (nothing to move, destination unknown), a destination that never confirms the release, boundary '
                'message/context ids; 1-3 moves on one association to one destination described by one dict (with and without credentials);  C-GET user: peer scripts interleaving 0-8 C-STORE requests (two SOP classes, '
                'in-memory, file-backed, and file-backed into one spool file whose get_file reports a non-zero start; handlers that close the file they were given) with pending C-GET responses, handler outcomes success/warning/failure/'
                'EventHandlingError, final statuses success/warning/failure/cancel; non-trivial = n>=2 with mixed '
                'outcomes, n=0, or interleaved pending responses')
    ctx.assumptions = ['"performed" accepted as completed == k or completed+failed+warning == k',
                       'status of the final C-MOVE response is not constrained',
                       'destination = AE title and presentation address handed to the provider for the sub-association']
    parallel(ctx, run_move_enum, [{'ns': [0, 1, 2]}, {'ns': [3]}, {'ns': [4]}])
    run_get_enum(ctx)
    for nmoves in (1, 2, 3):
        for creds in (0, 1, 2):
            for lazy in (False, True):
                ctx.case(('repeated-moves', nmoves, creds, lazy), nmoves >= 2, labels=['repeated-moves', 'creds=%d' % creds],
                         sample={'moves': nmoves, 'credentials': creds, 'lazy': lazy})
                ctx.check(repeated_moves, nmoves, creds, lazy)
    if ctx.thorough:
        parallel(ctx, shard, [{'n': 1500} for _ in range(16)])
    else:
        parallel(ctx, shard, [{'n': 120} for _ in range(12)])


def replay(case):
    quiet_warnings()
    if case['kind'] == 'repeated-moves':
        repeated_moves(case['moves'], case['creds'], case.get('lazy', False))
    elif case['kind'] == 'move':
        move_case(case['n'], case['outcomes'], case['msg_id'], case['pc_id'], case.get('default', False), case.get('declared'), case.get('lazy', False),
                  case.get('confirm_release', True))
    else:
        get_case(case['script'], case['handler_outcomes'], case['final_status'], case['file_backed'], case['msg_id'],
                 cross=bool(case.get('cross')))
