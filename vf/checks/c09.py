"""C09 - the acceptor answers every proposed presentation context correctly (fakedul)."""
from __future__ import annotations

import itertools
import warnings

from hypothesis import strategies as st

from .. import fakedul as fd, pdugen as g, refcmd, refpdu
from ..common import Violation, HarnessError, hyp_search, parallel, lib_frame, quiet_warnings

LEVEL = 'exploration'

ABS = {'A': '1.2.826.0.1.3680043.9.1', 'B': '1.2.826.0.1.3680043.9.22', 'C': '1.2.826.0.1.3680043.9.333',
       'Z': '1.2.826.0.1.3680043.9.9999'}
# (the fourth is an official transfer syntax newer than the UID dictionary of the installed pydicom: UIDs are opaque)
TS = ['1.2.840.10008.1.2', '1.2.840.10008.1.2.1', '1.2.840.10008.1.2.2', '1.2.840.10008.1.2.4.201']
TS_LISTS = [list(p) for k in (1, 2, 3) for p in itertools.permutations(range(4), k)]      # 40 ordered lists

ROLES = [(0, 1), (1, 0), (1, 1), (0, 0)]
_AES = {}
CALLS = []


def make_service(name, uid):
    def service(asce, ctx, msg):
        CALLS.append((name, tuple(ctx), type(msg).__name__))
    service.sop_classes = [uid]
    service.__name__ = 'svc_' + name
    return service


class ServiceObject(object):
    """A provider given as a callable OBJECT (a dispatcher holding its own work list, as applications write
    them).  Such an object may well be empty, i.e. falsy, at the moment a message arrives."""

    def __init__(self, name, uid, items):
        self.name, self.sop_classes, self.items = name, [uid], items
        self.__name__ = 'svcobj_' + name

    def __len__(self):
        return len(self.items)

    def __call__(self, asce, ctx, msg):
        CALLS.append((self.name, tuple(ctx), type(msg).__name__))


# A: plain function; B: callable object that is empty (falsy); C: callable object that is not
SERVICES = {'A': make_service('A', ABS['A']), 'B': ServiceObject('B', ABS['B'], []),
            'C': ServiceObject('C', ABS['C'], ['pending item'])}


def _scu(asce, ctx, *a):
    return None


def get_ae(served, supported, scu_rest=False):
    key = (served, supported, scu_rest)
    if key not in _AES:
        ae = fd.make_ae('SRV', [TS[i] for i in supported])
        for k in served:
            ae.add_scp(SERVICES[k])
        if scu_rest == 2:
            # ... or a service user of every class, served ones included: it is still an SCP for those
            ae.add_scu(_scu, [ABS[k] for k in 'ABCZ'])
        elif scu_rest:
            # the entity is also a service USER of every class it does not serve: still not an SCP for them
            ae.add_scu(_scu, [ABS[k] for k in 'ABCZ' if k not in served])
        _AES[key] = ae
    return _AES[key]


VERSIONS = [1, 1, 3, 0x8001, 0xFFFF]        # protocol-version bit masks with bit 0 set


def run_request(served, supported, contexts, probe, max_len=16384, called='SRV', calling='CLI',
                app='1.2.840.10008.3.1.1.1', extra_subs=(), scu_rest=False):
    """contexts: [(id, abstract key, [ts indices])]; probe: context id that is not accepted (or None) to
    which one message is sent after all accepted contexts were exercised."""
    case = {'served': served, 'supported': list(supported), 'contexts': contexts, 'probe': probe,
            'max_len': max_len, 'called': called, 'calling': calling, 'app': app, 'extra_subs': list(extra_subs),
            'scu_rest': scu_rest}
    ae = get_ae(served, tuple(supported), scu_rest)
    sup = [TS[i] for i in supported]
    salt = len(contexts) + len(served) + sum(supported) + (probe or 0)
    meanwhile = bool(contexts) and salt % 4 == 1
    case['another_association_meanwhile'] = meanwhile
    spec = fd.rq_spec([(cid, ABS[a], [TS[i] for i in tl]) for cid, a, tl in contexts], max_len, called, calling,
                      app, extra_subs, ver=VERSIONS[salt % len(VERSIONS)], reserved=0x2A2A if salt % 3 == 0 else 0)
    expected = []
    for cid, a, tl in contexts:
        common = [TS[i] for i in tl if TS[i] in sup]
        expected.append((cid, a, a in served and bool(common), common))
    accepted_ids = [cid for cid, a, ok, _ in expected if ok]

    rot = {'A': 'B', 'B': 'C', 'C': 'Z', 'Z': 'A'}

    def second_class(a):
        others = [k for k in sorted(served) if k != a]
        return others[(salt + len(a)) % len(others)] if others and salt % 2 == 0 else None

    def other_association():
        # ANOTHER peer negotiates with the same entity while this association is open: same context ids, other
        # abstract syntaxes, syntax lists reversed - its outcome is its own
        ospec = fd.rq_spec([(cid, ABS[rot[a]], [TS[i] for i in reversed(tl)]) for cid, a, tl in contexts], 4096, called, 'OTHER', app)
        fd.run_acceptor(ae, [lambda d: d.push_pdu(ospec)])

    def plan(dul):
        dul.push_pdu(spec)
        seen = set()
        for cid, a, ok, _ in expected:
            if ok and cid not in seen:
                if meanwhile and not seen:
                    dul.inbox.append(lambda: other_association())
                seen.add(cid)
                dul.push_msg({0x0002: ABS[a], 0x0100: 0x0030, 0x0110: cid}, None, cid)
                b = second_class(a)
                if b:
                    # a second message on the SAME context for ANOTHER class the entity serves (as meta SOP classes
                    # do): it goes to the service of the class the message names, with the context it arrived on
                    dul.push_msg({0x0002: ABS[b], 0x0100: 0x0030, 0x0110: cid}, None, cid)
        if probe is not None:
            a = dict((c[0], c[1]) for c in contexts).get(probe, 'A' if 'A' in served else 'Z')
            dul.push_msg({0x0002: ABS[a], 0x0100: 0x0030, 0x0110: 999}, None, probe)

    del CALLS[:]
    acc, fac, exc = fd.run_acceptor(ae, [plan])
    from pynetdicom2 import exceptions
    dul = fac.instances[0] if fac.instances else None
    if dul is None:
        raise Violation('C09:no-provider', 'acceptor never created its provider: %r' % (exc,), case)
    if exc is not None and not (probe is not None and isinstance(exc, exceptions.ClassNotSupportedError)):
        raise Violation('C09:exception:%s' % lib_frame(exc), 'acceptor raised %r' % (exc,), case)
    acs = dul.sent_pdus(2)
    if len(acs) != 1 or dul.sent_pdus(3):
        raise Violation('C09:no-ac', 'expected exactly one A-ASSOCIATE-AC, provider got %r'
                        % ([r['spec'].get('t') for r in dul.sent_pdus()],), case)
    ac = acs[0]['spec']
    if ac.get('t') != 2:
        raise Violation('C09:ac-malformed', 'A-ASSOCIATE-AC does not parse: %r' % (ac,), case)
    if refpdu.ae_norm(ac['called']) != called.strip() or refpdu.ae_norm(ac['calling']) != calling.strip():
        raise Violation('C09:ae-titles', 'AC titles (%r, %r), request had (%r, %r)'
                        % (ac['called'], ac['calling'], called, calling), case)
    apps = [i for i in ac['items'] if i['t'] == 0x10]
    if len(apps) != 1 or apps[0]['name'] != app:
        raise Violation('C09:app-context', 'AC application context %r, request had %r'
                        % ([i['name'] for i in apps], app), case)
    answers = [i for i in ac['items'] if i['t'] == 0x21]
    if [i['id'] for i in answers] != [c[0] for c in contexts]:
        raise Violation('C09:answer-ids', 'answered context ids %r, proposed %r'
                        % ([i['id'] for i in answers], [c[0] for c in contexts]), case)
    if any(i['t'] == 0x20 for i in ac['items']):
        raise Violation('C09:rq-item-in-ac', 'AC carries a request-type presentation context item', case)
    on_wire = {}
    for ans, (cid, a, ok, common) in zip(answers, expected):
        if (ans['result'] == 0) != ok:
            raise Violation('C09:decision:%s' % ('accepted-wrongly' if ans['result'] == 0 else 'rejected-wrongly'),
                            'context %d (%s, proposed %r): result %d, abstract served=%s, common syntaxes %r'
                            % (cid, a, contexts[[c[0] for c in contexts].index(cid)][2], ans['result'],
                               a in served, common), case)
        if ok:
            if ans['ts']['name'] not in common:
                raise Violation('C09:transfer-syntax', 'context %d accepted with %r, proposed-and-supported %r'
                                % (cid, ans['ts']['name'], common), case)
            on_wire[cid] = (ABS[a], ans['ts']['name'])
    # internal agreement
    if acc is None:
        # constructor raised after handle(): the object is not returned, state is on the provider
        tables = [('dul.accepted_contexts', dul.accepted_contexts)]
    else:
        tables = [('accepted_contexts', acc.accepted_contexts), ('dul.accepted_contexts', dul.accepted_contexts),
                  ('sop_classes_as_scp', acc.sop_classes_as_scp)]
    for tname, table in tables:
        try:
            got = {k: (str(v[1]), str(v[2])) for k, v in table.items()}
        except Exception:
            # (an internal table kept in another shape cannot be judged here; what matters - which service is
            #  called with which context - is probed below)
            continue
        if got != on_wire:
            raise Violation('C09:table:%s' % tname, '%s = %r, A-ASSOCIATE-AC accepted %r' % (tname, got, on_wire), case)
    # routing
    want_calls = []
    seen = set()
    for cid, a, ok, _ in expected:
        if ok and cid not in seen:
            seen.add(cid)
            want_calls.append((a, (cid, on_wire[cid][0], on_wire[cid][1]), 'CEchoRQMessage'))
            if second_class(a):
                want_calls.append((second_class(a), (cid, on_wire[cid][0], on_wire[cid][1]), 'CEchoRQMessage'))
    got_calls = [(n, (c[0], str(c[1]), str(c[2])), m) for n, c, m in CALLS]
    if got_calls != want_calls:
        raise Violation('C09:routing', 'services invoked %r, expected %r' % (got_calls, want_calls), case)
    if probe is not None and not isinstance(exc, exceptions.ClassNotSupportedError):
        raise Violation('C09:probe', 'message on non-accepted context %d: expected ClassNotSupportedError, got %r'
                        % (probe, exc), case)
    return expected


def late_service_case(first):
    """The application enables a service from inside its on_association_request hook (for this calling title, say).
    What the acceptor then reports as accepted is what it serves - on this very association, and on the next."""
    from pynetdicom2 import applicationentity
    case = {'late_service': True, 'first': first}

    class PerPeer(applicationentity.AE):
        def on_association_request(self, asce, assoc):
            if ABS['C'] not in self.supported_scp:
                self.add_scp(SERVICES['C'])
    ae = fd.make_ae('SRV', [TS[0], TS[1]], cls=PerPeer)
    ae.add_scp(SERVICES['A'])
    try:
        for round_ in (1, 2):
            contexts = [(1, 'A', [0]), (3, 'C', [1, 0]), (5, 'Z', [0])] if first == 'A' else [(1, 'C', [1]), (3, 'A', [0])]
            spec = fd.rq_spec([(cid, ABS[a], [TS[i] for i in tl]) for cid, a, tl in contexts], 16384, 'SRV', 'LATE')

            def plan(dul):
                dul.push_pdu(spec)
                for cid, a, tl in contexts:
                    if a != 'Z':
                        dul.push_msg({0x0002: ABS[a], 0x0100: 0x0030, 0x0110: cid}, None, cid)
                dul.push_pdu({'t': 5, 'r1': 0, 'r2': 0})
            del CALLS[:]
            acc, fac, exc = fd.run_acceptor(ae, [plan])
            dul = fac.instances[0]
            acs = dul.sent_pdus(2)
            answers = [i for i in acs[0]['spec']['items'] if i['t'] == 0x21] if acs else []
            results = [(i['id'], i['result']) for i in answers]
            want = [(cid, 0 if a != 'Z' else None) for cid, a, tl in contexts]
            ok = len(results) == len(want) and all(r[0] == w[0] and ((r[1] == 0) == (w[1] == 0)) for r, w in zip(results, want))
            served = [(n, c[0]) for n, c, m in CALLS]
            want_served = [(a, cid) for cid, a, tl in contexts if a != 'Z']
            if exc is not None or not ok or served != want_served:
                raise Violation('C09:late-service', 'association %d (service C enabled by the on_association_request hook of the '
                                'first): answers %r, services invoked %r (expected %r), exception %r'
                                % (round_, results, served, want_served, exc), case)
    finally:
        ae.server_close()


def run_many_classes(ctx):
    """Entities that serve MORE than 128 SOP classes (the storage provider the library ships has 139; a request
    can carry at most 128 contexts, an entity may serve any number): every class add_scp was called for is
    accepted when proposed, wherever it sits in the list."""
    from pynetdicom2 import sopclass
    configs = {'storage_scp (139 classes) + verification': lambda: fd.make_ae('SRV', [TS[0], TS[1]]).add_scp(sopclass.storage_scp).add_scp(sopclass.verification_scp),
               '200 synthetic classes in one service': None, 'verification first, then storage_scp': lambda: fd.make_ae('SRV', [TS[0], TS[1]]).add_scp(sopclass.verification_scp).add_scp(sopclass.storage_scp)}
    for name, build in sorted(configs.items()):
        if build is None:
            many = ['1.2.826.0.1.3680043.9.4000.%d' % i for i in range(200)]

            def svc_many(asce, c_, msg):
                CALLS.append(('many', tuple(c_), type(msg).__name__))
            svc_many.sop_classes = many
            ae = fd.make_ae('SRV', [TS[0], TS[1]]).add_scp(svc_many)
            served = many
        else:
            ae = build()
            served = list(sopclass.storage_scp.sop_classes)
        try:
            for pos in (0, 1, 63, 126, 127, 128, 129, len(served) // 2, len(served) - 2, len(served) - 1):
                uids = [served[pos], ABS['Z'], served[(pos + 1) % len(served)]]
                case = {'many_classes': name, 'position': pos, 'proposed': uids}
                spec = fd.rq_spec([(1 + 2 * k, u, [TS[2], TS[1]]) for k, u in enumerate(uids)])
                acc, fac, exc = fd.run_acceptor(ae, [lambda dul, spec=spec: dul.push_pdu(spec)])
                ctx.case(('many', name, pos), True, labels=['many-served-classes'], sample=case)
                dul = fac.instances[0] if fac.instances else None
                acs = dul.sent_pdus(2) if dul is not None else []
                if len(acs) != 1 or acs[0]['spec'].get('t') != 2:
                    ctx.fail('C09:many-classes:no-ac', '%s: no A-ASSOCIATE-AC for classes at positions %d.. (%r)' % (name, pos, exc), case)
                    continue
                res = [(i['id'], i['result'], i['ts']['name']) for i in acs[0]['spec']['items'] if i['t'] == 0x21]
                want = [(1, True), (3, False), (5, True)]
                for (cid, ok), got in zip(want, res):
                    if got[0] != cid or (got[1] == 0) != ok or (ok and got[2] != TS[1]):
                        ctx.fail('C09:many-classes:decision', '%s: class no. %d of %d served (%s) proposed with a supported '
                                 'syntax: answers %r' % (name, pos + 1, len(served), uids[0], res), case)
                        break
        finally:
            ae.server_close()


def nontrivial(expected, contexts, supported):
    oks = [e[2] for e in expected]
    later = any(tl and TS[tl[0]] not in [TS[i] for i in supported] and e[2]
                for (cid, a, tl), e in zip(contexts, expected))
    return (any(oks) and not all(oks)) or later


def pick_probe(contexts, expected, salt):
    rejected = [e[0] for e in expected if not e[2]]
    unused = [i for i in (1, 3, 5, 7, 9, 11) if i not in [c[0] for c in contexts]]
    opts = rejected + unused[:1] + [None]
    return opts[salt % len(opts)]


def run_enum(ctx, job):
    quiet_warnings()
    served_sets = [''.join(s) for k in range(4) for s in itertools.combinations('ABC', k)]
    sup_sets = [s for k in range(5) for s in itertools.combinations(range(4), k)]
    single = [(a, tl) for a in 'ABCZ' for tl in TS_LISTS]
    n = 0
    for si, served in enumerate(served_sets):
        for ui, supported in enumerate(sup_sets):
            if (si * len(sup_sets) + ui) % job['of'] != job['part']:
                continue
            reqs = [[]] + [[(1, a, tl)] for a, tl in single]
            if job['two']:
                reqs += [[(1, a, tl), (3, b, tm)] for a, tl in single for b, tm in single]
            for contexts in reqs:
                n += 1
                sup = [TS[i] for i in supported]
                exp0 = [(cid, a, a in served and any(TS[i] in sup for i in tl), None) for cid, a, tl in contexts]
                probe = pick_probe(contexts, exp0, n)
                try:
                    # role selection for the proposed abstract syntaxes (as this library's own requester sends
                    # for classes it serves itself): never a reason to refuse or to stop serving a context
                    roles = [{'t': 0x54, 'r': 0, 'uid': ABS[a], 'scu': ROLES[(n + j) % 4][0], 'scp': ROLES[(n + j) % 4][1]}
                             for j, a in enumerate(sorted({c[1] for c in contexts}))] if n % 4 < 2 else []
                    expected = run_request(served, list(supported), contexts, probe, scu_rest=n % 3,
                                           extra_subs=roles)
                    ctx.case(('enum', served, supported, contexts), nontrivial(expected, contexts, supported),
                             labels=['enum', 'n=%d' % len(contexts)],
                             sample={'served': served, 'supported_ts': list(supported), 'contexts': contexts})
                except Violation as v:
                    ctx.fail(v.key, v.what, v.case)
                    ctx.case(('enum', served, supported, contexts), True, labels=['enum', 'violating'])


@st.composite
def random_case(draw):
    served = ''.join(draw(st.sets(st.sampled_from('ABC'))))
    served = ''.join(sorted(served))
    supported = sorted(draw(st.sets(st.integers(0, 3))))
    n = draw(st.integers(0, 8))
    ids = draw(st.lists(st.integers(0, 127).map(lambda x: 2 * x + 1), min_size=n, max_size=n, unique=True))
    contexts = [(cid, draw(st.sampled_from('ABCZ')), draw(st.sampled_from(TS_LISTS))) for cid in ids]
    extra = draw(st.lists(st.sampled_from([0x52, 0x53, 0x54, 0x55, 0x56, 0x58]).flatmap(lambda k: g.sub_item(k)),
                          max_size=3).map(g._fit))
    for a in sorted({c[1] for c in contexts}):
        if draw(st.booleans()):
            scu, scp = draw(st.sampled_from(ROLES))
            extra.append({'t': 0x54, 'r': 0, 'uid': ABS[a], 'scu': scu, 'scp': scp})
    return (served, supported, contexts, draw(st.integers(0, 20)), draw(g.u32),
            draw(g.ae_title).strip() or 'X', draw(g.ae_title).strip() or 'Y',
            draw(st.sampled_from(['1.2.840.10008.3.1.1.1', '1.2.3', '1.2.840.10008.3.1.1.1.9'])), extra,
            draw(st.integers(0, 2)))


def run_random(ctx, n):
    def fn(value):
        served, supported, contexts, salt, max_len, called, calling, app, extra, scu_rest = value
        sup = [TS[i] for i in supported]
        exp0 = [(cid, a, a in served and any(TS[i] in sup for i in tl), None) for cid, a, tl in contexts]
        probe = pick_probe(contexts, exp0, salt)
        expected = run_request(served, supported, contexts, probe, max_len, called, calling, app, extra, scu_rest)
        ctx.case(('rnd', value[:3], called, calling), nontrivial(expected, contexts, supported),
                 labels=['random', 'n=%d' % len(contexts)],
                 sample={'served': served, 'supported_ts': supported, 'contexts': contexts, 'called': called})
    hyp_search(ctx, random_case(), fn, n, name='C09-random')


def shard_random(ctx, job):
    quiet_warnings()
    run_random(ctx, job['n'])


def cleanup():
    for ae in _AES.values():
        try:
            ae.server_close()
        except Exception:
            pass
    _AES.clear()


def run(ctx):
    quiet_warnings()
    for first in ('A', 'C'):
        ctx.case(('late-service', first), True, labels=['service-enabled-in-hook'], sample={'late_service': first})
        ctx.check(late_service_case, first)
    ctx.rule = ('exhaustive: 8 served-class subsets (the entity optionally being a service USER of all other, or of all, classes; role-selection items for the proposed classes in half of the requests) x 16 supported-syntax subsets x all requests with <=1 (quick) / '
                '<=2 (thorough) contexts over {3 served candidates, 1 never-served} x all 40 ordered lists of 1-3 '
                'syntaxes from 4; entities serving 139 / 200 classes with classes from every part of the list proposed; Hypothesis: 0-8 contexts with arbitrary odd ids, generated AE titles, application '
                'context, maximum length and extra user sub-items; each request is the decoded form of '
                'reference-encoded bytes and goes through AssociationAcceptor.handle(); one message per accepted '
                'context plus one on a non-accepted id probes routing; non-trivial = request with accepted and '
                'rejected contexts, or a context whose first proposed syntax is unsupported but a later one is')
    ctx.assumptions = ['any non-zero result code counts as rejection',
                       'requests carry Application Context first and User Information last; a third of the requests has every reserved byte of the PDU, its items and sub-items non-zero',
                       'wire observed through the reference parser (vf/refpdu.py)']
    try:
        parallel(ctx, run_enum, [{'part': i, 'of': 16, 'two': ctx.thorough} for i in range(16)])
        run_many_classes(ctx)
        if ctx.thorough:
            parallel(ctx, shard_random, [{'n': 4000} for _ in range(16)])
        else:
            run_random(ctx, 400)
    finally:
        cleanup()


def replay(case):
    quiet_warnings()
    if case.get('late_service'):
        late_service_case(case['first'])
        return
    if 'many_classes' in case:
        from ..common import Ctx
        sub = Ctx('C09', 'quick', 1)
        run_many_classes(sub)
        for key, ent in sorted(sub.failures.items()):
            raise Violation(key, ent['what'], ent['case'])
        return
    try:
        run_request(case['served'], case['supported'], [tuple(c) for c in case['contexts']], case['probe'],
                    case['max_len'], case['called'], case['calling'], case['app'], case.get('extra_subs', ()), case.get('scu_rest', False))
    finally:
        cleanup()
