"""Engine C: run the real DULServiceProvider.run() loop in the calling thread against a simulated
socket, select, clock and service user.  The harness owns schedule and time; nothing of the
provider (run, _check_*, Timer, the whole FSM, DIMSEDecoder) is re-implemented.

A scenario is a list of actions (plain dicts):
  {'k':'seg',  'data':bytes, 'eager':bool}   bytes arriving from the peer (one TCP segment)
  {'k':'close','eager':bool}                 the peer closes its side
  {'k':'user', 'prim':<primitive>}           the local user issues a primitive (PDU object or
                                             a list of P-DATA-TF PDUs = one DIMSE message)
  {'k':'tick', 'dt':float}                   simulated time passes
  {'k':'user', 'fn':callable(sim)}           dynamic user: the callable is evaluated when the action is released
                                             and returns a primitive (or None: the user does nothing)
  {'k':'call', 'fn':callable(sim)}           run arbitrary harness code at a quiescent point (e.g. a complete
                                             second provider in the same process)
  {'k':'kill'}                               the provider is asked to terminate (is_killed)
  {'k':'stop'}                               DULServiceProvider.stop() is called
Non-eager actions are released only when the loop is quiescent (two consecutive iterations that
produced no event and consumed no input); eager network actions are handed over at the very next
select().  Simulated time moves only through 'tick'.
"""
from __future__ import annotations

import collections
import contextlib
import queue as _queue


class Hang(BaseException):
    """The provider would block forever / livelock (BaseException: no library handler eats it)."""


# what socket.setdefaulttimeout() last set: process-wide, inherited by every socket created afterwards
_DEFAULT_TIMEOUT = [None]


class SimSocket(object):
    def __getattr__(self, name):
        # (only called for names this stand-in does not have: the tree uses a part of the real interface that the
        #  simulation does not model - it cannot be judged with it, which is not a verdict about the property)
        if name.startswith('__'):
            raise AttributeError(name)
        from .common import HarnessError
        raise HarnessError('simulated %s has no %r: the simulation does not fit this tree' % (type(self).__name__, name))

    def __init__(self, sim):
        self.sim = sim
        self.timeout = _DEFAULT_TIMEOUT[0]
        self.closed = False
        self.segments = collections.deque()
        self.peer_closed = False
        self.connected_to = None
        self.broken = False           # the connection was reset: every further read or write fails
        self.nsends = 0

    def __bool__(self):
        return True

    def fileno(self):
        return 7

    def readable(self):
        return bool(self.segments) or self.peer_closed or self.broken

    def recv(self, n, flags=0):
        if self.closed:
            raise OSError(9, 'Bad file descriptor')
        self.sim.point('recv')
        if self.broken:
            raise ConnectionResetError(104, 'Connection reset by peer')
        peek, waitall, dontwait = flags & 0x2, flags & 0x100, flags & 0x40
        if not self.readable():
            if dontwait or self.timeout == 0.0:
                raise BlockingIOError(11, 'Resource temporarily unavailable')
            self.sim.blocking_recv()
        if peek:
            self.sim.idle = 0
            return bytes(self.segments[0][:n]) if self.segments else b''
        out = self._take(n)
        # MSG_WAITALL on a blocking socket waits for all n bytes (or the end of the stream); on a socket in time-out
        # mode it returns early with what is there
        while waitall and self.timeout is None and n and len(out) < n and not self.broken:
            if not self.segments:
                if self.peer_closed:
                    break
                self.sim.blocking_recv()
                if not self.segments:
                    break
            out += self._take(n - len(out))
        return out

    def _take(self, n):
        if self.segments:
            seg = self.segments[0]
            if n is not None and 0 < n < len(seg):
                self.segments[0] = seg[n:]
                seg = seg[:n]
            elif n == 0:
                seg = b''
            else:
                self.segments.popleft()
            self.sim.idle = 0
            self.sim.log.append(('recv', len(seg)))
            return seg
        self.sim.idle = 0
        return b''

    def sendall(self, data):
        if self.closed:
            raise OSError(9, 'Bad file descriptor')
        self.sim.point('send')       # (a loop that only ever writes must run into the step budget as well)
        fault = self.sim.write_fault
        gone = self.sim.write_fault_from
        if self.broken or (fault is not None and self.nsends >= fault) or (gone is not None and self.sim.next > gone):
            # the peer is gone and the local stack finds out while writing (EPIPE / ECONNRESET)
            self.broken = True
            self.segments.clear()
            self.sim.log.append(('send-failed', len(data)))
            raise ConnectionResetError(104, 'Connection reset by peer')
        if self.sim.stall_write is not None and self.nsends == self.sim.stall_write and not self.sim.artim_running():
            # the peer does not read for a while (it is busy; TCP flow control makes this write wait).  A blocking
            # socket just waits; a socket left in time-out mode gives up
            self.sim.now += self.sim.stall_seconds
            self.sim.log.append(('stalled', self.sim.stall_seconds))
            if self.timeout is not None and self.timeout < self.sim.stall_seconds:
                self.sim.log.append(('send-timed-out', len(data)))
                raise TimeoutError('timed out')
        self.nsends += 1
        self.sim.log.append(('send', bytes(data)))

    def send(self, data, flags=0):
        """Like sendall on a blocking socket.  On a socket in time-out mode the kernel takes what fits: with the
        scenario's `sndbuf` set, at most that many bytes per call - the count is returned."""
        data = bytes(data)
        if self.timeout is not None and self.sim.sndbuf and len(data) > self.sim.sndbuf:
            data = data[:self.sim.sndbuf]
        self.sendall(data)
        return len(data)

    def sendmsg(self, buffers, ancdata=(), flags=0, address=None):
        return self.send(b''.join(bytes(b) for b in buffers), flags)

    def getpeername(self):
        return self.connected_to or ('192.0.2.7', 50104)

    def getsockname(self):
        return ('192.0.2.1', 104 if self.sim.role == 'acceptor' else 40000)

    def close(self):
        if not self.closed:
            self.closed = True
            self.sim.log.append(('close',))

    def connect(self, addr):
        self.connected_to = addr
        self.sim.log.append(('connect', addr))

    def shutdown(self, how):
        if self.closed:
            raise OSError(9, 'Bad file descriptor')
        if self.sim.shutdown_fault:
            # (what Linux reports once the peer has reset the connection)
            raise OSError(107, 'Transport endpoint is not connected')

    def settimeout(self, t):
        self.timeout = t

    def gettimeout(self):
        return self.timeout

    def setblocking(self, flag):
        self.timeout = None if flag else 0.0

    def setsockopt(self, *a):
        pass


class _FakeSocketModule(object):
    def __getattr__(self, name):
        # (only called for names this stand-in does not have: the tree uses a part of the real interface that the
        #  simulation does not model - it cannot be judged with it, which is not a verdict about the property)
        if name.startswith('__'):
            raise AttributeError(name)
        from .common import HarnessError
        raise HarnessError('simulated %s has no %r: the simulation does not fit this tree' % (type(self).__name__, name))

    AF_INET = 2
    SOCK_STREAM = 1
    error = OSError
    timeout = TimeoutError
    herror = __import__('socket').herror
    gaierror = __import__('socket').gaierror
    for _n in dir(__import__('socket')):
        if _n.isupper() and isinstance(getattr(__import__('socket'), _n), int):
            locals()[_n] = int(getattr(__import__('socket'), _n))
    del _n

    def __init__(self, sim):
        self._sim = sim

    def socket(self, *a, **kw):
        self._sim.sock.timeout = self._sim.sock_timeout if self._sim.sock_timeout is not None else _DEFAULT_TIMEOUT[0]
        return self._sim.sock

    def create_connection(self, address, timeout=None, source_address=None, **kw):
        sock = self.socket()
        if timeout is not None:
            sock.settimeout(timeout)
        sock.connect(address)
        return sock

    def setdefaulttimeout(self, t):
        _DEFAULT_TIMEOUT[0] = t

    def getdefaulttimeout(self):
        return _DEFAULT_TIMEOUT[0]


class _FakeSelect(object):
    def __getattr__(self, name):
        # (only called for names this stand-in does not have: the tree uses a part of the real interface that the
        #  simulation does not model - it cannot be judged with it, which is not a verdict about the property)
        if name.startswith('__'):
            raise AttributeError(name)
        from .common import HarnessError
        raise HarnessError('simulated %s has no %r: the simulation does not fit this tree' % (type(self).__name__, name))

    error = OSError
    POLLIN, POLLPRI, POLLOUT, POLLERR, POLLHUP, POLLNVAL = 1, 2, 4, 8, 16, 32

    def __init__(self, sim):
        self._sim = sim

    def _readable(self, sock):
        sim = self._sim
        sim.point('select')
        if sock is not None:
            sim.release_eager()
            return bool(sock.readable())
        return False

    def select(self, rlist, wlist, xlist, timeout=None):
        sock = rlist[0] if rlist else None
        if self._readable(sock):
            return [sock], [], []
        return [], [], []

    def poll(self):
        return _FakePoll(self)


class _FakePoll(object):
    """select.poll() over the one simulated socket."""

    def __init__(self, sel):
        self._sel = sel
        self._socks = {}

    def register(self, fd, eventmask=1 | 2 | 4):
        self._socks[fd if isinstance(fd, int) else fd.fileno()] = (fd, eventmask)

    modify = register

    def unregister(self, fd):
        self._socks.pop(fd if isinstance(fd, int) else fd.fileno(), None)

    def poll(self, timeout=None):
        out = []
        sock = self._sel._sim.sock
        for num, (obj, mask) in sorted(self._socks.items()):
            if num == sock.fileno() and mask & 1 and self._sel._readable(sock):
                out.append((num, 1))
        if not self._socks:
            self._sel._sim.point('select')
        return out


class _FakeTime(object):
    def __getattr__(self, name):
        # (only called for names this stand-in does not have: the tree uses a part of the real interface that the
        #  simulation does not model - it cannot be judged with it, which is not a verdict about the property)
        if name.startswith('__'):
            raise AttributeError(name)
        from .common import HarnessError
        raise HarnessError('simulated %s has no %r: the simulation does not fit this tree' % (type(self).__name__, name))

    def __init__(self, sim):
        self._sim = sim

    def time(self):
        # (the provider reads the clock in every turn of its loop: counting it guarantees that a loop which neither
        #  polls the socket nor its user queue any more still runs into the budget / livelock detection)
        if not self._sim._probing:
            self._sim.point('clock')
        return self._sim.now

    # (an interval measured on the monotonic clock is the same interval)
    def monotonic(self):
        return self.time()

    def perf_counter(self):
        return self.time()

    def sleep(self, dt):
        self._sim.now += dt


class _UserQueue(object):
    def __getattr__(self, name):
        # (only called for names this stand-in does not have: the tree uses a part of the real interface that the
        #  simulation does not model - it cannot be judged with it, which is not a verdict about the property)
        if name.startswith('__'):
            raise AttributeError(name)
        from .common import HarnessError
        raise HarnessError('simulated %s has no %r: the simulation does not fit this tree' % (type(self).__name__, name))

    """Replaces from_service_user; get() is the loop's idle/scheduling point."""

    def __init__(self, sim):
        self.sim = sim
        self.items = collections.deque()

    def put(self, item, *a, **kw):
        self.items.append(item)

    def get(self, block=True, timeout=None):
        sim = self.sim
        sim.point('get')
        if self.items:
            sim.idle = 0
            return self.items.popleft()
        if len(sim.provider.event) == 0:
            sim.idle += 1
        if sim.idle >= 2 and not sim.input_pending():
            sim.on_quiescent()
            if self.items:
                sim.idle = 0
                return self.items.popleft()
        raise _queue.Empty

    def empty(self):
        return not self.items

    def qsize(self):
        return len(self.items)


def _watch_indications(sim, q):
    """The provider keeps the indication queue it created itself; put() is observed, and made non-blocking:
    the local user of these scenarios fetches nothing, so a put() that would wait for it waits forever."""
    real_put = q.put

    def put(item, block=True, timeout=None):
        sim.point('indication')
        sim.log.append(('ind', item))
        try:
            real_put(item, False)
        except _queue.Full:
            raise Hang('provider thread blocked in to_service_user.put() with %d indications not yet fetched by the '
                       'local user' % q.qsize())
    q.put = put
    return q


class _EventQueue(collections.deque):
    """The provider's own event deque; an empty `popleft` is one idle turn of its loop."""

    def __init__(self, sim, items=()):
        collections.deque.__init__(self, items)
        self._sim = sim

    def popleft(self):
        if not self:
            self._sim.idle_turn()
        return collections.deque.popleft(self)


class Sim(object):
    START_TIME = 1000.0

    def __init__(self, role, actions, max_pdu=65536, budget=20000, store_in_file=frozenset(),
                 get_file_cb=None, accepted_contexts=None, write_fault=None, stall_write=None, stall_seconds=11.5,
                 sock_timeout=None, sndbuf=None, shutdown_fault=False, write_fault_from=None):
        self.role = role
        self.stopped_at = None
        self._last_log, self._stale = -1, 0
        self._spin = 0
        self._probing = False
        self._final_timer = None
        self.stall_write = stall_write        # index of the write during which the peer pauses reading
        self.stall_seconds = stall_seconds
        self.write_fault = write_fault    # index of the first write on the transport that fails (None: never)
        self.write_fault_from = write_fault_from    # every write fails once the script action with this index was released
        self.sndbuf = sndbuf              # bytes a send() takes at most when the socket is in time-out mode
        self.shutdown_fault = shutdown_fault    # shutdown() fails with ENOTCONN
        self.sock_timeout = sock_timeout  # the socket is in time-out mode from the start (socket.setdefaulttimeout)
        self.actions = list(actions)
        self.next = 0
        self.now = self.START_TIME
        self.idle = 0
        self.points = 0
        self.budget = budget
        self.log = []
        self.snaps = []           # one per quiescent point: dict
        self.stop_results = []
        self.finished = False
        self.killed_by_script = False
        self.sock = SimSocket(self)
        if sock_timeout is not None:
            self.sock.timeout = sock_timeout
        self.provider = None
        self.max_pdu = max_pdu
        self.store_in_file = store_in_file
        self.get_file_cb = get_file_cb
        self.accepted_contexts = accepted_contexts
        self.outcome = None
        self.dropped = 0

    # -- scheduling ------------------------------------------------------------------------
    def point(self, what):
        self.points += 1
        self._spin = 0
        # nothing at all happened (no byte read or written, no indication, no scripted step released) for a long
        # stretch of scheduling points: the loop is spinning without getting anywhere
        n = len(self.log)
        if n != self._last_log:
            self._last_log, self._stale = n, 0
        else:
            self._stale += 1
            if self._stale > 2500:
                raise Hang('livelock: %d scheduling points in a row without reading, writing, indicating or reaching '
                           'quiescence (at %s, state %s)' % (self._stale, what, self.state()))
        if self.points > self.budget:
            raise Hang('step budget of %d scheduling points exhausted (livelock) at %s, state %s'
                       % (self.budget, what, self.state()))

    def idle_turn(self):
        """The event loop found no event. A healthy loop has polled the socket, the user's queue or the clock on
        the way (each a scheduling point, which resets this counter); one that polled nothing is spinning."""
        self._spin += 1
        if self._spin > 1000:
            raise Hang('livelock: %d turns of the event loop in a row without polling the transport, the user queue '
                       'or the timer (state %s)' % (self._spin, self.state()))

    def state(self):
        if not self.provider:
            return None
        cs = self.provider.state_machine.current_state
        # (a state machine left without a valid state is reported as such, it must not crash the harness)
        return cs + 1 if isinstance(cs, int) and not isinstance(cs, bool) else 'invalid(%r)' % (cs,)

    def input_pending(self):
        """Bytes / close already handed to the socket that the provider has not read yet."""
        p = self.provider
        return p is not None and p.dul_socket is not None and not self.sock.closed \
            and self.sock.readable()

    def _peek(self):
        return self.actions[self.next] if self.next < len(self.actions) else None

    def _net(self, act):
        return act['k'] in ('seg', 'close')

    def _deliver_net(self, act):
        if self.sock.closed or self.sock.broken or (self.role == 'requestor' and self.sock.connected_to is None):
            # transport gone (or never opened): the peer's bytes cannot reach the provider
            self.log.append(('dropped', self.next - 1))
            self.dropped += 1
            return
        if act['k'] == 'seg':
            if act['data']:
                self.sock.segments.append(bytes(act['data']))
        else:
            self.sock.peer_closed = True

    def release_eager(self):
        """Called from select(): hand over the next action if it is an eager network action."""
        if self.sock.readable():
            return
        act = self._peek()
        while act is not None and self._net(act) and act.get('eager'):
            self.next += 1
            self.log.append(('rel', self.next - 1))
            self._deliver_net(act)
            if self.sock.readable():
                return
            act = self._peek()

    def snapshot(self):
        p = self.provider
        self.snaps.append({
            'at': len(self.log), 'next': self.next, 'state': self.state(),
            'artim': self.timer_started() is not None, 'artim_start': self.timer_started(),
            'closed': self.sock.closed, 'sock_none': p.dul_socket is None, 'now': self.now,
            'pending_events': len(p.event)})

    def on_quiescent(self):
        self.snapshot()
        while True:
            act = self._peek()
            if act is None:
                self.finished = True
                self.provider.is_killed = True
                return
            self.next += 1
            self.log.append(('rel', self.next - 1))
            k = act['k']
            if self._net(act):
                self._deliver_net(act)
                self.idle = 0
                if self.sock.readable() and self.provider.dul_socket is not None:
                    return
                if self.provider.dul_socket is None or self.sock.closed:
                    continue        # dropped: try the next action right away
                return
            if k == 'user':
                prim = act['fn'](self) if 'fn' in act else act['prim']
                if prim is None:
                    continue
                if isinstance(prim, (list, tuple)):
                    prim = (x for x in list(prim))       # (a generator, as Association.send hands over)
                self.provider.send(prim)       # (the public route the service user takes)
                return
            if k == 'call':
                act['fn'](self)
                self.snapshot()         # (still quiescent: the snapshot 'before the next action' must exist)
                continue
            if k == 'tick':
                self.now += act['dt']
                self.idle = 0
                return
            if k == 'kill':
                self.killed_by_script = True
                self.provider.is_killed = True
                return
            if k == 'stop':
                res = self.provider.stop()
                self.stop_results.append((self.state(), res))
                if res:
                    # stop() said the provider will terminate: nothing more may be asked of the loop
                    self.stopped_at = self.next
                    return
                continue
            raise ValueError('unknown action %r' % (k,))

    def blocking_recv(self):
        """recv() called with nothing readable: a real socket would block until the peer sends or
        closes.  Pull the next network action of the script; everything scripted before it happens
        while the provider is blocked."""
        while True:
            act = self._peek()
            if act is None:
                raise Hang('recv() blocks forever: peer silent and nothing scheduled (state Sta%s)'
                           % self.state())
            self.next += 1
            self.log.append(('rel-blocked', self.next - 1))
            k = act['k']
            if self._net(act):
                self._deliver_net(act)
                if self.sock.readable():
                    return
                continue
            if k == 'tick':
                self.now += act['dt']
            elif k == 'user':
                prim = act['fn'](self) if 'fn' in act else act['prim']
                if prim is not None:
                    if isinstance(prim, (list, tuple)):
                        prim = (x for x in list(prim))       # (a generator, as Association.send hands over)
                    self.provider.send(prim)       # (the public route the service user takes)
            elif k == 'call':
                act['fn'](self)
            elif k == 'kill':
                self.killed_by_script = True
                self.provider.is_killed = True
            elif k == 'stop':
                self.stop_results.append((self.state(), self.provider.stop()))

    # -- running ---------------------------------------------------------------------------
    @contextlib.contextmanager
    def patched(self):
        """The modules the provider is made of see a simulated select / time / socket - whether they reach them as
        a module (`time.time()`), or through a name bound at import (`from time import monotonic`, `_now = time.time`).
        The timer class is replaced by a subclass that records, through its PUBLIC start / stop / restart methods,
        whether it is running."""
        import select as real_select
        import socket as real_socket
        import time as real_time
        from pynetdicom2 import dulprovider, fsm
        from .common import HarnessError
        fakes = {real_select: _FakeSelect(self), real_time: _FakeTime(self), real_socket: _FakeSocketModule(self)}
        aliases = {}
        for real, fake in fakes.items():
            for name in ('time', 'monotonic', 'perf_counter', 'sleep', 'select', 'poll', 'socket', 'create_connection',
                         'setdefaulttimeout', 'getdefaulttimeout'):
                fn = getattr(real, name, None)
                if fn is not None and callable(fn) and name in type(fake).__dict__:
                    aliases[id(fn)] = (fn, getattr(fake, name))
        saved = []
        for mod in (dulprovider, fsm):
            for name, val in list(vars(mod).items()):
                new = None
                if isinstance(val, (_FakeSelect, _FakeTime, _FakeSocketModule)):
                    # (a simulation nested in another one - a second provider of the same process - brings its own)
                    new = [f for f in fakes.values() if type(f) is type(val)][0]
                elif getattr(val, '__self__', None) is not None and \
                        isinstance(val.__self__, (_FakeSelect, _FakeTime, _FakeSocketModule)):
                    own = [f for f in fakes.values() if type(f) is type(val.__self__)][0]
                    new = getattr(own, val.__name__)
                elif val in (real_select, real_time, real_socket):
                    # (fsm has always seen the fake socket module only; dulprovider keeps the real one for its
                    #  `except socket.error` clauses unless it creates sockets itself)
                    if val is real_socket and mod is dulprovider:
                        continue
                    new = fakes[val]
                elif id(val) in aliases and aliases[id(val)][0] is val:
                    new = aliases[id(val)][1]
                if new is not None:
                    saved.append((mod, name, val))
                    setattr(mod, name, new)
        # ... and through class attributes bound at import (`_clock = staticmethod(time.monotonic)`)
        for mod in (dulprovider, fsm):
            for cls in [c for c in vars(mod).values() if isinstance(c, type) and getattr(c, '__module__', None) == mod.__name__]:
                for name, raw in list(vars(cls).items()):
                    target = raw.__func__ if isinstance(raw, (staticmethod, classmethod)) else raw
                    own = None
                    if getattr(target, '__self__', None) is not None and \
                            isinstance(target.__self__, (_FakeSelect, _FakeTime, _FakeSocketModule)):
                        own = getattr([f for f in fakes.values() if type(f) is type(target.__self__)][0], target.__name__)
                    elif id(target) in aliases and aliases[id(target)][0] is target:
                        own = aliases[id(target)][1]
                    if own is not None:
                        saved.append((cls, name, raw))
                        setattr(cls, name, staticmethod(own))
        timer_cls = getattr(dulprovider, 'Timer', None)
        if not isinstance(timer_cls, type) or not all(callable(getattr(timer_cls, m, None)) for m in ('start', 'stop', 'restart', 'check')):
            for owner, name, val in reversed(saved):
                setattr(owner, name, val)
            raise HarnessError('dulprovider.Timer with start/stop/restart/check is not there: the simulation does not fit this tree')
        # is the clock the timer reads really the simulated one?  (a tree may reach the real clock by a route that is
        # not intercepted - a default argument, a closure: then simulated time means nothing and no verdict is possible)
        probe, before = timer_cls(10), self.now
        self._probing = True
        try:
            probe.start()
            fresh = probe.check()
            self.now = before + 11.0
            expired = probe.check()
        finally:
            self.now, self._probing = before, False
        if fresh is False or expired is not False:
            for owner, name, val in reversed(saved):
                setattr(owner, name, val)
            raise HarnessError('the ARTIM timer of this tree does not run on the simulated clock (check() gave %r at once, '
                               '%r after 11 simulated seconds): the simulation does not fit this tree' % (fresh, expired))
        try:
            yield
        finally:
            for owner, name, val in reversed(saved):
                setattr(owner, name, val)

    def build(self):
        """Create the provider (must be called inside `patched()`); run() is NOT started."""
        from pynetdicom2 import dulprovider

        class SimProvider(dulprovider.DULServiceProvider):
            def start(self):        # the harness calls run() itself, in this thread
                pass

        sock = self.sock if self.role == 'acceptor' else None
        p = SimProvider(self.store_in_file, self.get_file_cb, sock, self.max_pdu)
        p.from_service_user = _UserQueue(self)
        p.event = _EventQueue(self, p.event)
        _watch_indications(self, p.to_service_user)
        if self.accepted_contexts is not None:
            p.accepted_contexts = self.accepted_contexts
        self.provider = p
        return p

    def run(self):
        with self.patched():
            p = self.build()
            try:
                p.run()
                self.outcome = ('returned',)
            except Hang as h:
                self.outcome = ('hang', str(h))
            except Exception as exc:
                from .common import harness_fault, HarnessError
                if harness_fault(exc):
                    raise HarnessError('the simulation does not fit this tree: %r' % (exc,))
                self.outcome = ('exception', exc)
            self.snapshot()
            self._final_timer = self.timer_started()       # (while the simulated clock is still in place)
        return self

    # -- views -----------------------------------------------------------------------------
    def wire(self):
        return b''.join(e[1] for e in self.log if e[0] == 'send')

    ARTIM = 10.0

    def timer_started(self):
        """When was the provider's ARTIM timer started (None: it is not running)?  Found out through the timer's public
        check() alone: with the simulated clock moved far ahead a running timer has expired, a stopped one never does;
        the instant at which check() flips is start + ARTIM (bisection on the simulated clock, which is put back)."""
        t = self.provider.timer
        before = self.now
        self._probing = True
        try:
            self.now = before + 1e7
            if t.check() is not False:
                return None
            lo, hi = before - 1e4, before + 1e7          # check() is True at lo (not yet expired), False at hi
            self.now = lo
            if t.check() is False:
                return lo - self.ARTIM                   # (started very long ago)
            for _ in range(60):
                mid = (lo + hi) / 2.0
                self.now = mid
                if t.check() is False:
                    hi = mid
                else:
                    lo = mid
                if hi - lo < 1e-7:
                    break
            return round(hi - self.ARTIM, 4)
        finally:
            self.now, self._probing = before, False

    def artim_running(self):
        return self.provider is not None and self.timer_started() is not None

    def _stop_request_completes(self):
        """kill() - the public 'stop and wait until the loop has ended' - returns (the loop HAS ended)."""
        import threading
        th = threading.Thread(target=self.provider.kill, daemon=True)
        th.start()
        th.join(2.0)
        return not th.is_alive()

    def indications(self):
        return [e[1] for e in self.log if e[0] == 'ind']

    def steps(self):
        """Log split at release markers: [(action index or None, [events])]."""
        out = [(None, [])]
        for e in self.log:
            if e[0] in ('rel', 'rel-blocked'):
                out.append((e[1], []))
            elif e[0] != 'recv':
                out[-1][1].append(e)
        return out

    def final(self):
        p = self.provider
        return {'state': self.state(), 'closed': self.sock.closed or
                (self.role == 'requestor' and self.sock.connected_to is None),
                'sock_none': p.dul_socket is None, 'artim': self._final_timer is not None,
                'loop_exited_flag': self._stop_request_completes(), 'outcome': self.outcome[0]}


def run_scenario(role, actions, **kw):
    return Sim(role, actions, **kw).run()
