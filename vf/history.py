"""History-level differential between the PS3.8 model (vf/ulmodel.py) and the real provider loop
(vf/simnet.py).  Used by C05 and C13.

Abstract actions (plain data):
  {'a':'pdu','spec':spec,'eager':bool}   a whole PDU arrives            -> Evt3/4/6/10/12/13/16
  {'a':'raw','data':bytes,'eager':bool}  a frame with unknown PDU type  -> Evt19
  {'a':'head','spec':spec,'cut':k}       only the first k bytes of a PDU arrive (the peer pauses inside it) -> no event
  {'a':'tail'}                           the rest of that PDU arrives   -> the event of the whole PDU
  {'a':'close','eager':bool}             the peer closes                -> Evt17
  {'a':'tick','dt':float}                time passes (ARTIM may expire) -> Evt18
  {'a':'user','pdu':spec}                user primitive given as PDU type 1,2,3,5,6,7
  {'a':'user','msg':[P-DATA specs]}      user P-DATA request: one message of k fragments
"""
from __future__ import annotations

from . import pdugen as g
from . import refpdu, simnet, ulmodel
from .common import Violation, lib_frame

NET = ('pdu', 'raw', 'close', 'head', 'tail')
START = simnet.Sim.START_TIME


def is_eager(act):
    return act['a'] in NET and bool(act.get('eager'))


def predict(role, history, splits=None):
    """Run the model; returns (groups, model).  Each group: dict(idx, wire, ind, closed, state, artim,
    transport).  splits: {history index of a multi-fragment P-DATA request: number of its fragments that go out
    before the network actions racing it are seen} (default 1)."""
    m = ulmodel.Model(role)
    m.half = None           # PDU of which the peer has sent only the beginning so far
    now = START
    if role == 'acceptor':
        m.event(5, now)
    groups = []
    cur = None

    def absorb(eff):
        if eff is None:
            return
        cur['wire'].extend(eff['wire'])
        cur['ind'].extend(eff['ind'])
        cur['wire_src'].extend([eff['action']] * len(eff['wire']))
        cur['ind_src'].extend([eff['action']] * len(eff['ind']))
        cur['closed'] = cur['closed'] or eff['close']
        cur['cells'].append((eff['from'], eff['action'], eff['evt']))

    def flush():
        while m.pending_out:
            frag = m.pending_out.pop(0)
            absorb(m.event(9, now, prim=frag))

    def seal():
        flush()
        cur.update(state=m.state, artim=m.artim_running(), transport=m.transport)

    for i, act in enumerate(history):
        if cur is None or not is_eager(act):
            if cur is not None:
                seal()
            cur = {'idx': [], 'wire': [], 'ind': [], 'closed': False, 'cells': [], 'wire_src': [], 'ind_src': []}
            groups.append(cur)
        cur['idx'].append(i)
        a = act['a']
        if a in NET:
            if not m.transport:
                cur.setdefault('dropped', []).append(i)
                m.half = None
                continue
            if a == 'head':
                m.half = act['spec']          # an incomplete PDU is no event
            elif a == 'tail':
                spec, m.half = m.half, None
                absorb(m.event(ulmodel.PDU_EVENT[spec['t']], now, prim=spec))
            elif a == 'pdu':
                absorb(m.event(ulmodel.PDU_EVENT[act['spec']['t']], now, prim=act['spec']))
            elif a == 'raw':
                absorb(m.event(19, now))
            else:
                m.half = None
                absorb(m.event(17, now))
        elif a == 'tick':
            now += act['dt']
            if m.expired(now):
                absorb(m.event(18, now))
        elif a == 'user':
            if 'pdu' in act:
                t = act['pdu']['t']
                eff = m.event(ulmodel.USER_EVENT[t], now, prim=act['pdu'])
                absorb(eff)
                if t == 1 and eff is not None:
                    absorb(m.event(2, now, prim=act['pdu']))       # transport connect confirmation
            else:
                frags = list(act['msg'])
                k = max(1, min(len(frags), (splits or {}).get(i, 1)))
                for frag in frags[:k]:
                    absorb(m.event(9, now, prim=frag))
                m.pending_out = frags[k:]
    if cur is not None:
        seal()
    return groups, m


def to_script(history):
    actions = []
    rest = b''

    def glued(act, data):
        # 'glue': the bytes arrive in the SAME segment (one read) as the network action before; the script keeps a
        # no-op in this position so that script and history indices stay aligned
        if act.get('glue') and actions and actions[-1]['k'] == 'seg' and actions[-1]['data']:
            actions[-1] = dict(actions[-1], data=actions[-1]['data'] + data)
            actions.append({'k': 'call', 'fn': lambda sim: None})
            return True
        return False
    for act in history:
        a = act['a']
        if a == 'head' and glued(act, refpdu.enc_pdu(act['spec'])[:act['cut']]):
            rest = refpdu.enc_pdu(act['spec'])[act['cut']:]
            continue
        if a == 'pdu' and glued(act, refpdu.enc_pdu(act['spec'])):
            continue
        if a == 'pdu':
            actions.append({'k': 'seg', 'data': refpdu.enc_pdu(act['spec']), 'eager': bool(act.get('eager'))})
        elif a == 'head':
            data = refpdu.enc_pdu(act['spec'])
            actions.append({'k': 'seg', 'data': data[:act['cut']], 'eager': bool(act.get('eager'))})
            rest = data[act['cut']:]
        elif a == 'tail':
            actions.append({'k': 'seg', 'data': rest, 'eager': bool(act.get('eager'))})
            rest = b''
        elif a == 'raw':
            actions.append({'k': 'seg', 'data': act['data'], 'eager': bool(act.get('eager'))})
        elif a == 'close':
            actions.append({'k': 'close', 'eager': bool(act.get('eager'))})
        elif a == 'tick':
            actions.append({'k': 'tick', 'dt': act['dt']})
        elif a == 'user':
            if 'pdu' in act:
                obj = g.build(act['pdu'])
                if act['pdu']['t'] == 1:
                    obj.called_presentation_address = ('peer.example', 104)
                actions.append({'k': 'user', 'prim': obj})
            else:
                actions.append({'k': 'user', 'prim': [g.build(p) for p in act['msg']]})
        else:
            raise ValueError(a)
    return actions


def observe(role, history, **kw):
    """Run the provider; returns (sim, groups) with groups aligned to the model's grouping."""
    script = to_script(history)
    if 'budget' not in kw:
        # the step budget is a livelock detector, not a speed limit: large PDUs read in small pieces take many turns
        total = sum(len(a.get('data') or b'') for a in script if a['k'] == 'seg')
        kw['budget'] = 20000 + 10 * (total // max(1, min(kw.get('max_pdu') or 65536, 65536)) + len(script))
    sim = simnet.run_scenario(role, script, **kw)
    starts = [i for i, act in enumerate(history) if i == 0 or not is_eager(act)]
    # events before the first release belong to group 0 (e.g. nothing, normally)
    groups = [{'events': [], 'snap': None} for _ in starts]
    gi = -1
    pre = []
    for e in sim.log:
        if e[0] in ('rel', 'rel-blocked'):
            if e[1] in starts:
                gi = starts.index(e[1])
            continue
        if e[0] in ('recv', 'dropped'):
            continue
        (groups[gi]['events'] if gi >= 0 else pre).append(e)
    if pre and groups:
        groups[0]['events'] = pre + groups[0]['events']
    # snapshot for group i = the quiescent snapshot taken just before the next group's first action
    # was released (snap['next'] == that index); last group: final snapshot
    for i, g_ in enumerate(groups):
        nxt = starts[i + 1] if i + 1 < len(starts) else len(history)
        cands = [s for s in sim.snaps if s['next'] == nxt]
        g_['snap'] = cands[0] if cands else None
    if groups and sim.snaps:
        if groups[-1]['snap'] is None or sim.outcome[0] == 'returned':
            groups[-1]['snap'] = sim.snaps[-1]
    return sim, groups, pre


def _wire_match(exp, got):
    kind = exp[0]
    if kind == 'pdu':
        return g.first_diff(g.norm_ae(refpdu.strip_n(got)), g.norm_ae(exp[1])) is None
    if kind == 'kind':
        return got['t'] == exp[1]
    if kind == 'abort':
        return got['t'] == 7 and (exp[1] is None or got['source'] == exp[1])
    return False


def _ind_match(exp, got):
    kind = exp[0]
    if kind == 'pdu':
        return hasattr(got, 'pdu_type') and g.first_diff(g.norm_ae(g.extract(got)), g.norm_ae(exp[1])) is None
    if kind == 'p-abort':
        return getattr(got, 'pdu_type', None) == 7
    if kind == 'dimse':
        if not isinstance(got, tuple) or len(got) != 2:
            return False
        msg, pc_id = got
        _, fields, epc, data = exp
        ds = msg.data_set
        if ds is not None and not isinstance(ds, bytes):
            try:
                ds.seek(0)
                ds = ds.read()
            except Exception:
                return False
            if ds[128:132] == b'DICM' and len(ds) >= 144:
                # received into a Part-10 file: skip preamble and file meta group, the data set follows
                import struct
                ds = ds[144 + struct.unpack('<I', ds[140:144])[0]:]
        return getattr(msg, 'command_field', None) == fields.get(0x0100) and pc_id == epc and \
            ((ds or None) == (data or None))
    return False


def _first_bad(exp, got, match):
    for j, (e, x) in enumerate(zip(exp, got)):
        if not match(e, x):
            return j
    if len(exp) != len(got):
        return min(len(exp), len(got))
    return None


def _desc(x):
    if isinstance(x, tuple) and x and isinstance(x[0], str):
        if x[0] == 'pdu':
            return 'PDU%d' % x[1]['t']
        if x[0] == 'dimse':
            return 'DIMSE(%04X)' % (x[1].get(0x0100) or 0)
        return '%s%s' % (x[0], x[1:] if len(x) > 1 else '')
    if isinstance(x, dict):
        return 'PDU%s' % x.get('t')
    if isinstance(x, tuple):
        return 'DIMSE(%s)' % type(x[0]).__name__
    return type(x).__name__


def racing_sends(history):
    """Indices of multi-fragment P-DATA requests with a back-to-back network action right behind them."""
    return [i for i, a in enumerate(history) if a['a'] == 'user' and len(a.get('msg', ())) > 1 and
            i + 1 < len(history) and is_eager(history[i + 1])]


def compare_racing(prop, role, history, pred_groups, sim, obs_groups, case, check_invariants=True):
    """compare(), except that where network actions RACE a multi-fragment P-DATA request the standard does not say
    how many of its fragments go out before the provider looks at the network again: the provider is right if it
    agrees with the model for SOME number (1..n) per racing request."""
    try:
        return compare(prop, role, history, pred_groups, sim, obs_groups, case, check_invariants)
    except Violation as first:
        racing = racing_sends(history)
        if not racing or len(racing) > 3:
            raise
        import itertools
        ranges = [range(1, len(history[i]['msg']) + 1) for i in racing]
        for combo in itertools.product(*ranges):
            if all(k == 1 for k in combo):
                continue
            alt, _ = predict(role, history, dict(zip(racing, combo)))
            try:
                return compare(prop, role, history, alt, sim, obs_groups, case, check_invariants)
            except Violation:
                continue
        raise first


def compare(prop, role, history, pred_groups, sim, obs_groups, case, check_invariants=True):
    """Raises Violation on the first disagreement."""
    def where(i):
        acts = [history[j] for j in pred_groups[i]['idx']]
        return 'step %d %s' % (i, [a['a'] + (':%d' % a['spec']['t'] if a['a'] == 'pdu' else
                                             (':%d' % a['pdu']['t'] if 'pdu' in a else '')) for a in acts])

    if sim.outcome[0] == 'exception':
        raise Violation('%s:loop-died:%s' % (prop, lib_frame(sim.outcome[1])),
                        'provider loop died with %r (%s)' % (sim.outcome[1], role), case)
    if sim.outcome[0] == 'hang':
        raise Violation('%s:hang' % prop, 'provider hangs: %s' % sim.outcome[1], case)
    over = False
    started = role == 'acceptor'
    for i, (pg, og) in enumerate(zip(pred_groups, obs_groups)):
        from_state = pg['cells'][0][0] if pg['cells'] else None
        act_names = '+'.join(c[1] for c in pg['cells']) or 'none'
        try:
            wire = refpdu.parse_stream(b''.join(e[1] for e in og['events'] if e[0] == 'send'))
        except refpdu.RefError as exc:
            raise Violation('%s:wire-malformed' % prop, '%s: bytes written do not parse: %s' % (where(i), exc), case)
        bad = _first_bad(pg['wire'], wire, _wire_match)
        if bad is not None:
            src = pg['wire_src'][bad] if bad < len(pg['wire_src']) else 'unprescribed'
            raise Violation('%s:wire:%s' % (prop, src),
                            '%s (%s, model Sta%s, %s): wrote %s, model prescribes %s'
                            % (where(i), role, from_state, act_names, [_desc(w) for w in wire],
                               [_desc(e) for e in pg['wire']]), case)
        inds = [e[1] for e in og['events'] if e[0] == 'ind']
        bad = _first_bad(pg['ind'], inds, _ind_match)
        if bad is not None:
            src = pg['ind_src'][bad] if bad < len(pg['ind_src']) else 'unprescribed'
            raise Violation('%s:indication:%s' % (prop, src),
                            '%s (%s, model Sta%s, %s): indicated %s, model prescribes %s'
                            % (where(i), role, from_state, act_names, [_desc(x) for x in inds],
                               [_desc(e) for e in pg['ind']]), case)
        snap = og['snap']
        if snap is None:
            raise Violation('%s:no-quiescence' % prop, '%s: provider never became quiescent' % where(i), case)
        last = pg['cells'][-1][1] if pg['cells'] else 'none'
        if snap['state'] != pg['state']:
            raise Violation('%s:state:%s' % (prop, last),
                            '%s (%s, %s): provider in Sta%s, model in Sta%d'
                            % (where(i), role, act_names, snap['state'], pg['state']), case)
        if snap['artim'] != pg['artim']:
            raise Violation('%s:artim:%s' % (prop, last),
                            '%s (%s, %s, Sta%s): ARTIM running=%s, model says %s'
                            % (where(i), role, act_names, pg['state'], snap['artim'], pg['artim']), case)
        if sim.sock.connected_to is not None or role == 'acceptor':
            # transport open/closed at the end of the step (a peer close must make us close our end too)
            if snap['closed'] == pg['transport'] or snap['sock_none'] == pg['transport']:
                raise Violation('%s:transport:%s' % (prop, last),
                                '%s (%s, %s): socket closed=%s (dul_socket None=%s), model transport open=%s'
                                % (where(i), role, act_names, snap['closed'], snap['sock_none'], pg['transport']),
                                case)
        if check_invariants:
            if snap['state'] == 1 and not (snap['sock_none'] and (snap['closed'] or not pg.get('ever_open', True))):
                if sim.sock.connected_to is not None or role == 'acceptor':
                    raise Violation('%s:inv:idle-open' % prop, '%s: idle (Sta1) with the connection still open' % where(i), case)
            if snap['artim'] != (snap['state'] in (2, 13)):
                raise Violation('%s:inv:artim-state' % prop, '%s: ARTIM running=%s in Sta%s'
                                % (where(i), snap['artim'], snap['state']), case)
            if over and inds:
                raise Violation('%s:inv:indication-after-end' % prop, '%s: indication after the association ended' % where(i), case)
        if pg['state'] != 1:
            started = True
        if started and pg['state'] in (1, 13):
            over = True
