"""C06 - DIMSE fragmentation: size bound, fragment flags, byte-exact content (DESIGN.md C06)."""
from __future__ import annotations

import warnings

from hypothesis import strategies as st

from .. import dimsegen as dg
from .. import refcmd, refpdu
from ..common import Violation, HarnessError, hyp_search, parallel, lib_frame, quiet_warnings

LEVEL = 'exploration'
SOURCES = ('bytes', 'bytesio', 'file', 'offset', 'gzip', 'bytesio-offset', 'short-reads')
PCIDS = [1, 2, 3, 4, 5, 63, 64, 127, 128, 129, 200, 253, 254, 255]


def default_fields(cf, variant=0):
    out = {}
    for i, kw in enumerate(dg.class_keywords(cf)):
        vr = refcmd.ELEMENTS[kw][1]
        if vr == 'UI':
            out[kw] = ['1.2.840.10008.1.1', '1.2.840.10008.5.1.4.1.1.2', '1.2.3.4'][(variant + i) % 3]
        elif vr == 'US':
            out[kw] = (variant * 257 + i) & 0xFFFF
        elif vr == 'AE':
            out[kw] = 'AE%d' % variant
        elif vr == 'AT':
            out[kw] = [0x00100010]
    return out


def norm(v):
    if isinstance(v, (list, tuple)) and len(v) == 1:
        return v[0]
    if isinstance(v, tuple):
        return list(v)
    return v


def produce(spec, M, pc_id, source, via):
    from pynetdicom2 import dsutils
    if via == 'resend':
        # the message object was already sent once in the opposite data-set state (as providers re-use one
        # response object for pending and final responses); what is sent now must describe it as it is now
        first = dict(spec, data=None if spec['data'] else b'\x08\x00\x52\x00\x04\x00\x00\x00XY  ')
        msg = dg.build_msg(first, 'bytes')
        msg.set_length()
        list(msg.encode(pc_id, M))
        dg.attach(msg, spec['data'], source)
        via = 'encode'
    else:
        msg = dg.build_msg(spec, source)
    if via == 'encode':
        msg.set_length()
        pdus = list(msg.encode(pc_id, M))
    else:
        assoc = dg.make_assoc(M)
        assoc.send(msg, pc_id)
        if len(assoc.dul.sent) != 1:
            raise Violation('C06:send-count', 'Association.send queued %d primitives' % len(assoc.dul.sent))
        pdus = assoc.dul.sent[0]
    return pdus, dsutils.encode(msg.command_set, True, True)


def check_case(spec, M, pc_id, sources=SOURCES, vias=('encode', 'send', 'resend')):
    case = {'spec': spec, 'M': M, 'pc_id': pc_id}
    data = spec['data'] or b''
    first = None
    for source in sources:
        for via in (vias if source == 'bytes' else ('encode',)):
            tag = '%s/%s' % (source, via)
            try:
                pdus, cmd_bytes = produce(spec, M, pc_id, source, via)
            except Violation as v:
                v.case = case
                raise
            except Exception as exc:
                raise Violation('C06:exception:%s' % lib_frame(exc),
                                'fragmenting (%s) raised %r' % (tag, exc), case)
            frags = []
            for p in pdus:
                raw = p.encode()
                try:
                    parsed = refpdu.parse_pdu(raw)
                except refpdu.RefError as exc:
                    raise Violation('C06:malformed-pdu', 'P-DATA-TF not well-formed (%s): %s' % (tag, exc), case)
                if parsed['t'] != 4:
                    raise Violation('C06:not-pdata', 'PDU type %r in a message stream' % parsed['t'], case)
                if len(raw) - 6 > M or p.pdu_length > M:
                    raise Violation('C06:too-long', 'P-DATA-TF of length %d with maximum %d (%s)'
                                    % (len(raw) - 6, M, tag), case)
                if p.pdu_length != len(raw) - 6:
                    raise Violation('C06:pdu-length-field', 'pdu_length %r but %d bytes follow the header'
                                    % (p.pdu_length, len(raw) - 6), case)
                if not parsed['pdvs']:
                    raise Violation('C06:empty-pdu', 'P-DATA-TF without PDV (%s)' % tag, case)
                for v in parsed['pdvs']:
                    if v['id'] != pc_id:
                        raise Violation('C06:context-id', 'PDV on context %d, message sent on %d (%s)'
                                        % (v['id'], pc_id, tag), case)
                    if len(v['data']) < 2:
                        raise Violation('C06:empty-fragment', 'PDV with %d bytes (no payload) (%s)'
                                        % (len(v['data']), tag), case)
                    if v['data'][0] not in (0, 1, 2, 3):
                        raise Violation('C06:control-header', 'message control header %d' % v['data'][0], case)
                    frags.append((v['data'][0], v['data'][1:]))
            heads = [h for h, _ in frags]
            cmd = [h for h in heads if h & 1]
            dat = [h for h in heads if not h & 1]
            if heads != cmd + dat:
                raise Violation('C06:order', 'data fragment before command fragment: %r (%s)' % (heads, tag), case)
            if not cmd or cmd.count(3) != 1 or cmd[-1] != 3:
                raise Violation('C06:last-command', 'command fragment flags %r (%s)' % (cmd[-6:], tag), case)
            if bool(dat) != bool(data):
                raise Violation('C06:data-presence', '%d data fragments for a %d-byte data set (%s)'
                                % (len(dat), len(data), tag), case)
            if dat and (dat.count(2) != 1 or dat[-1] != 2):
                raise Violation('C06:last-data', 'data fragment flags %r (M=%d, L=%d, %s)'
                                % (dat[-6:], M, len(data), tag), case)
            got_cmd = b''.join(p for h, p in frags if h & 1)
            got_dat = b''.join(p for h, p in frags if not h & 1)
            if got_cmd != cmd_bytes:
                raise Violation('C06:command-bytes', 'concatenated command fragments differ from the encoded '
                                'command set (%s)' % tag, case)
            if got_dat != data:
                raise Violation('C06:data-bytes', 'concatenated data fragments (%d bytes) differ from the data '
                                'set (%d bytes) (%s)' % (len(got_dat), len(data), tag), case)
            fields, defects = refcmd.wellformed(got_cmd)
            if defects and defects[0].startswith('unparseable'):
                raise Violation('C06:command-unparseable', defects[0], case)
            exp = dg.expected_fields(spec)
            for el, want in exp.items():
                if el == 0x0800:
                    continue
                if norm(fields.get(el)) != norm(want):
                    raise Violation('C06:command-field-value', 'element (0000,%04X) carries %r, message has %r'
                                    % (el, fields.get(el), want), case)
            # the PDU objects handed out belong to whoever got them (the provider): whatever happens to them must
            # not show in what is produced for the same message later on
            from .. import pdugen
            for p in pdus:
                pdugen.scramble(p)
            if first is None:
                first = frags
            elif source == 'short-reads':
                pass        # (a stream that delivers less than asked for may legitimately be cut into other fragments)
            elif frags != first:
                raise Violation('C06:source-dependent', 'fragment sequence for %s differs from bytes source' % tag, case)
    return len([h for h, _ in first if not h & 1])


def is_nontrivial(M, L, ndata):
    f = M - 6
    return ndata >= 2 or (L > 0 and min(L % f, f - L % f) <= 2)


def grid_lengths(M):
    f = M - 6
    out = {1}
    for k in range(0, 5):
        for d in (-2, -1, 0, 1, 2):
            if k * f + d >= 0:
                out.add(k * f + d)
    return sorted(out)


def run_grid(ctx, job):
    quiet_warnings()
    lo, hi = job['m_lo'], job['m_hi']
    for M in range(lo, hi + 1):
        for L in grid_lengths(M):
            cf = dg.ALL_CF[(M * 31 + L) % len(dg.ALL_CF)]
            pc_id = PCIDS[(M + L) % len(PCIDS)]
            spec = {'cf': cf, 'fields': default_fields(cf, (M + L) % 5),
                    'data': dg.patterned(L, M) if L else None}
            try:
                nd = check_case(spec, M, pc_id)
            except Violation as v:
                ctx.fail(v.key, v.what, v.case)
                nd = 0
            ctx.case(('grid', cf, M, L), is_nontrivial(M, L, nd),
                     labels=['grid', 'cf=%04X' % cf, 'ndata=%s' % (nd if nd < 5 else '5+')],
                     sample={'cf': cf, 'M': M, 'L': L, 'pc_id': pc_id, 'data_fragments': nd})


def run_boundaries(ctx):
    Ms = sorted({m for k in range(3, 33) for m in (2 ** k - 1, 2 ** k, 2 ** k + 1) if 7 <= m <= 2 ** 32 - 1})
    for i, M in enumerate(Ms):
        for L in sorted({1, M - 7, M - 6, M - 5, 3 * (M - 6) + 1}):
            if L < 0:
                continue
            L = min(L, 200000)
            cf = dg.ALL_CF[(i + L) % len(dg.ALL_CF)]
            spec = {'cf': cf, 'fields': default_fields(cf, i % 5), 'data': dg.patterned(L, i) if L else None}
            try:
                nd = check_case(spec, M, PCIDS[i % len(PCIDS)], sources=('bytes', 'file'))
            except Violation as v:
                ctx.fail(v.key, v.what, v.case)
                nd = 0
            ctx.case(('bnd', cf, M, L), is_nontrivial(M, L, nd), labels=['boundary-2^k'],
                     sample={'cf': cf, 'M': M, 'L': L, 'data_fragments': nd})


def run_block_boundaries(ctx):
    """File sources are read in pieces; implementations like to buffer in power-of-two blocks.  Fragment sizes that
    divide 64 KiB / 1 MiB with data sets ending at, just before and just after those block boundaries; and fragment
    sizes above 1 MiB that are not a multiple of it."""
    cases = []
    for M in (10, 70, 262, 1030, 4102, 16390):
        f = M - 6
        for L in (65535, 65536, 65537, 65536 + f, 2 * 65536 + 1):
            cases.append((M, L))
    cases += [(1048582, 1048576), (1048582, 1048577), (1048582, 2 * 1048576 + 5), (1572870, 3 * 1048576 + 11),
              (1572870, 1572864), (2097158 + 7, 4 * 1048576 + 3), (262150, 1048576), (262150, 1048577)]
    for i, (M, L) in enumerate(cases):
        if M == 10 and L > 70000:
            continue
        cf = (0x0001, 0x8020, 0x8010)[i % 3]
        spec = {'cf': cf, 'fields': default_fields(cf, i % 5), 'data': dg.patterned(L, i)}
        try:
            nd = check_case(spec, M, 1 + 2 * (i % 100), sources=('bytes', 'file', 'bytesio', 'offset'), vias=('encode',))
        except Violation as v:
            ctx.fail(v.key, v.what, v.case)
            nd = 0
        ctx.case(('block', M, L), True, labels=['block-boundary', 'M>1MiB' if M > 1048576 else 'M<=1MiB'],
                 sample={'cf': cf, 'M': M, 'L': L, 'data_fragments': nd})


def run_all_classes(ctx):
    for cf in dg.ALL_CF:
        for M, L in ((7, 3), (16, 20), (16, 0), (100, 95), (38, 64)):
            if (cf + M) % 2:
                # this thread has just seen an encoding error (reported to and handled by the application)
                if dg.provoke_encode_failure():
                    ctx.label('after-failed-encode')
            spec = {'cf': cf, 'fields': default_fields(cf, 1), 'data': dg.patterned(L) if L else None}
            try:
                nd = check_case(spec, M, 1 + 2 * (cf % 100))
            except Violation as v:
                ctx.fail(v.key, v.what, v.case)
                nd = 0
            ctx.case(('cls', cf, M, L), is_nontrivial(M, L, nd), labels=['all-classes'])
    # data sets whose content looks like a file, a meta group, a command group or a PDU
    for k, payload in enumerate(dg.magic_payloads()):
        for M in (16, 140, 1024, 0x10000):
            cf = dg.ALL_CF[(k + M) % len(dg.ALL_CF)]
            spec = {'cf': cf, 'fields': default_fields(cf, k % 5), 'data': payload}
            try:
                nd = check_case(spec, M, 1 + 2 * k)
            except Violation as v:
                ctx.fail(v.key, v.what, v.case)
                nd = 0
            ctx.case(('magic', k, M), True, labels=['content-looks-like-something-else'])


def run_interleaved(ctx):
    """The provider of each association pulls fragments from its own generator while other associations' providers
    do the same: consuming several encode() generators alternately must give each message the same fragments as
    consuming it alone."""
    import io
    for M in (16, 40, 64, 1030):
        for sources in (('bytes', 'bytes'), ('bytesio', 'bytesio'), ('file', 'bytesio', 'bytes')):
            specs = [{'cf': (0x0001, 0x8020, 0x0021)[i % 3], 'fields': default_fields((0x0001, 0x8020, 0x0021)[i % 3], i),
                      'data': dg.patterned(3 * (M - 6) + 5 + 17 * i, i + M)} for i in range(len(sources))]
            case = {'interleaved': True, 'M': M, 'sources': list(sources)}
            alone = []
            for spec, src in zip(specs, sources):
                msg = dg.build_msg(spec, src)
                msg.set_length()
                alone.append([bytes(v.data_value) for p in msg.encode(3, M) for v in p.data_value_items])
            msgs = [dg.build_msg(spec, src) for spec, src in zip(specs, sources)]
            for m in msgs:
                m.set_length()
            gens = [m.encode(3, M) for m in msgs]
            got = [[] for _ in gens]
            live = list(range(len(gens)))
            while live:
                for i in list(live):
                    try:
                        p = next(gens[i])
                        got[i].extend(bytes(v.data_value) for v in p.data_value_items)
                    except StopIteration:
                        live.remove(i)
            ctx.case(('interleaved', M, sources), True, labels=['interleaved-generators'],
                     sample={'M': M, 'sources': sources, 'fragments': [len(a) for a in alone]})
            if got != alone:
                bad = [i for i in range(len(gens)) if got[i] != alone[i]]
                ctx.fail('C06:interleaved', 'message %r (source %s, M=%d): fragments differ when its generator is consumed '
                         'alternately with other messages\' generators' % (bad, [sources[i] for i in bad], M), case)


def scale_case(M, n_frags, source):
    """One message of n_frags data fragments (a small maximum PDU length and a data set of ordinary size)."""
    L = n_frags * (M - 6) - 3
    spec = {'cf': 0x0001, 'fields': default_fields(0x0001), 'data': dg.patterned(L, 9)}
    try:
        check_case(spec, M, 5, sources=(source,), vias=('send',) if source == 'bytes' else ('encode',))
    except Violation as v:
        raise Violation(v.key, v.what + ' [message of %d data fragments, %d bytes]' % (n_frags, L),
                        {'scale': True, 'M': M, 'frags': n_frags, 'source': source})


def run_scale(ctx, job):
    quiet_warnings()
    M, n_frags, source = job['M'], job['frags'], job['source']
    ctx.case(('scale', M, n_frags, source), True, labels=['many-fragments', 'frags>=%d' % (n_frags // 10000 * 10000)],
             sample={'max_pdu': M, 'fragments': n_frags, 'source': source})
    ctx.check(scale_case, M, n_frags, source)


def run_random(ctx, n):
    Ms = st.one_of(st.integers(7, 300), st.sampled_from([7, 8, 9, 64, 128, 1024, 16384, 65536, 2 ** 31, 2 ** 32 - 1]))
    strat = st.tuples(dg.message(max_data=900), Ms, st.integers(1, 255))

    def fn(value):
        spec, M, pc_id = value
        nd = check_case(spec, M, pc_id)
        L = len(spec['data'] or b'')
        ctx.case(('rnd', spec, M, pc_id), is_nontrivial(M, L, nd),
                 labels=['random', 'cf=%04X' % spec['cf']],
                 sample={'spec': spec, 'M': M, 'pc_id': pc_id, 'data_fragments': nd})
    hyp_search(ctx, strat, fn, n, name='C06-random')


def shard_random(ctx, job):
    quiet_warnings()
    run_random(ctx, job['n'])


def run(ctx):
    quiet_warnings()
    try:
        refcmd.self_test()
        refpdu.self_test()
    except (refcmd.CmdError, refpdu.RefError) as exc:
        raise HarnessError('reference self-test: %s' % exc)
    ctx.rule = ('grid: every maximum PDU length M in the range x every data length within +-2 of k*(M-6), '
                'k=0..4, plus 1 (message class and context id rotated), each through bytes / BytesIO / real '
                'file / real file positioned behind a header / gzip file object and through DIMSEMessage.encode and Association.send; 2^k boundaries up to 2^32-1; file sources with data sets ending around 64 KiB / 1 MiB block boundaries and fragment sizes above 1 MiB; all '
                '23 classes; Hypothesis-random messages; several generators consumed alternately; messages of 33000-70000 (thorough: 300000) fragments; non-trivial = >=2 data fragments or data length '
                'within +-2 of a multiple of the fragment size; distinct by (part, class, M, L)')
    ctx.assumptions = ['several PDVs per PDU would be accepted', 'M < 7 outside the stated domain',
                       'command bytes compared with dsutils.encode(command_set) and parsed by vf/refcmd.py']
    hi = 600 if ctx.thorough else 70
    bands = [(lo, min(lo + 14, hi)) for lo in range(7, hi + 1, 15)]
    parallel(ctx, run_grid, [{'m_lo': a, 'm_hi': b} for a, b in bands])
    # messages of tens of thousands of fragments (counters of 16 bits, recursion, quadratic buffers)
    scale = [{'M': 16, 'frags': 66001, 'source': 'bytes'}, {'M': 9, 'frags': 70000, 'source': 'file'},
             {'M': 7, 'frags': 33000, 'source': 'bytesio'}]
    if ctx.thorough:
        scale += [{'M': 16, 'frags': 140000, 'source': 'bytes'}, {'M': 70, 'frags': 66000, 'source': 'bytesio-offset'},
                  {'M': 8, 'frags': 300000, 'source': 'file'}]
    parallel(ctx, run_scale, scale)
    run_all_classes(ctx)
    run_boundaries(ctx)
    run_block_boundaries(ctx)
    run_interleaved(ctx)
    if ctx.thorough:
        parallel(ctx, shard_random, [{'n': 5000} for _ in range(16)])
    else:
        run_random(ctx, 600)


def replay(case):
    quiet_warnings()
    if case.get('scale'):
        scale_case(case['M'], case['frags'], case['source'])
        return
    if case.get('interleaved'):
        from ..common import Ctx
        sub = Ctx('C06', 'quick', 1)
        run_interleaved(sub)
        for key, ent in sorted(sub.failures.items()):
            raise Violation(key, ent['what'], ent['case'])
        return
    check_case(case['spec'], case['M'], case['pc_id'])
