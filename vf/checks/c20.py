"""C20 - concurrent associations on one application entity are isolated.

Part a: real loopback TCP, N concurrent clients against one server entity (schedules sampled).
Part b: several AssociationAcceptor.handle() bodies sharing one AE on scripted providers, interleaved by
        a baton scheduler whose hand-over order is a Hypothesis-drawn value (schedules enumerated at
        primitive granularity, shrinkable and replayable).
"""
from __future__ import annotations

import hashlib
import io
import threading
import traceback
import warnings

from hypothesis import strategies as st

from .. import fakedul as fd, loopback as lb, svc
from ..common import Violation, HarnessError, hyp_search, parallel, lib_frame, canon, quiet_warnings
from ..dimsegen import patterned

LEVEL = 'exploration'
PROP = 'C20'
TSS = [svc.IMPLICIT, svc.EXPLICIT, svc.BIG]
SOPS = [svc.SC_STORAGE, svc.CT_STORAGE]
ROUND_LIMIT = 120.0


class Boom(Exception):
    pass


# ------------------------------------------------------------------------------------------------
# part a: loopback

def client_plan(i, seed):
    """Deterministic per-client parameters."""
    x = (i * 7919 + seed * 104729) & 0xFFFFFF
    return {
        'tag': 'C%02d' % i,
        'ts': TSS[x % 3],
        'max_pdu': [128, 512, 4096, 16384, 65536][(x >> 2) % 5],
        'sops': [SOPS[(x >> 5) % 2]] if (x >> 7) % 3 == 0 else list(SOPS),
        'echo': (x >> 9) % 4 != 0,
        'find': (x >> 11) % 3 != 0,
        'nstore': 1 + (x >> 13) % 3,
        'size': [10, 300, 2000, 6000][(x >> 15) % 4],
        'behaviour': ['normal', 'abort-mid', 'abort-gen'][i % 3] if i % 3 else 'normal',
        'nmatch': (x >> 17) % 4,
    }


def make_instance(plan, k):
    return svc.simple_ds(PatientName='%s^%d' % (plan['tag'], k), PatientID='%s-%d' % (plan['tag'], k),
                         SOPClassUID=plan['sops'][k % len(plan['sops'])],
                         SOPInstanceUID='1.2.826.0.1.3680043.9.20.%d.%d' % (int(plan['tag'][1:]) + 1, k + 1),
                         EncapsulatedDocument=patterned(plan['size'], k + int(plan['tag'][1:])))


def ds_hash(ds):
    return hashlib.sha1(svc.enc_ds(ds, svc.EXPLICIT)).hexdigest()


def run_round(n_clients, seed):
    import pydicom
    from pynetdicom2 import applicationentity, sopclass, statuses, dimsemessages
    case = {'part': 'loopback', 'clients': n_clients, 'seed': seed}
    rec = lb.Recorder()
    by_thread = {}

    class Server(applicationentity.AE):
        def on_association_request(self, asce, assoc):
            by_thread[threading.get_ident()] = str(assoc.calling_ae_title).strip()

        def _tag(self):
            return by_thread.get(threading.get_ident())

        def on_receive_echo(self, context):
            rec.add(('echo', self._tag(), tuple(map(str, context))))
            return statuses.SUCCESS

        def on_receive_store(self, context, ds):
            got = pydicom.dcmread(ds)
            body = pydicom.dataset.Dataset({k: v for k, v in got.items()})
            rec.add(('store', self._tag(), tuple(map(str, context)), str(got.file_meta.MediaStorageSOPInstanceUID),
                     ds_hash(body), str(body.PatientID)))
            code = 0xB000 if str(body.PatientID).endswith('1') else 0x0000
            return statuses.Status(code, dimsemessages.CStoreRSPMessage)

        def on_receive_find(self, context, ds):
            rec.add(('find', self._tag(), tuple(map(str, context)), str(ds.PatientID)))
            n = int(ds.StudyID)
            return iter([(svc.simple_ds(PatientName='%s^%d' % (ds.PatientID, i), PatientID=str(ds.PatientID)),
                          statuses.C_FIND_PENDING) for i in range(n)])

    ae = Server('SRV', 0, None, 16384)
    ae.add_scp(sopclass.verification_scp).add_scp(sopclass.storage_scp).add_scp(sopclass.qr_find_scp)
    plans = [client_plan(i, seed) for i in range(n_clients)]
    results = [None] * n_clients

    def client(i, port):
        from pynetdicom2 import exceptions
        plan = plans[i]
        out = {'statuses': [], 'find': None, 'echo': None, 'contexts': None, 'error': None, 'completed_stores': 0}
        cae = applicationentity.ClientAE(plan['tag'], [plan['ts']], plan['max_pdu'])
        if plan['echo']:
            cae.add_scu(sopclass.verification_scu)
        cae.add_scu(sopclass.storage_scu, plan['sops'])
        if plan['find']:
            cae.add_scu(sopclass.qr_find_scu)
        try:
            with cae.request_association({'aet': 'SRV', 'address': '127.0.0.1', 'port': port}) as assoc:
                out['contexts'] = {k: tuple(map(str, v)) for k, v in assoc.accepted_contexts.items()}
                if plan['echo']:
                    out['echo'] = int(assoc.get_scu(svc.VERIFICATION)(1))
                for k in range(plan['nstore']):
                    ds = make_instance(plan, k)
                    out['statuses'].append(int(assoc.get_scu(str(ds.SOPClassUID))(ds, k + 2)))
                    out['completed_stores'] += 1
                    if plan['behaviour'] == 'abort-mid' and k == 0:
                        raise Boom('client gives up')
                if plan['find']:
                    q = svc.simple_ds(PatientID=plan['tag'], StudyID=str(plan['nmatch']), QueryRetrieveLevel='PATIENT')
                    gen = assoc.get_scu(svc.PATIENT_FIND)(q, 50)
                    items = []
                    for ds, status in gen:
                        items.append((None if ds is None else str(ds.PatientName), int(status)))
                        if plan['behaviour'] == 'abort-gen' and len(items) == 1:
                            raise Boom('client gives up inside the generator')
                    out['find'] = items
        except Boom:
            out['error'] = 'boom'
        except exceptions.DCMTimeoutError:
            out['error'] = 'timeout'
        except Exception as exc:
            out['error'] = exc
        results[i] = out

    with lb.quiet_stderr() as err, lb.serving(ae) as port:
        threads = [threading.Thread(target=client, args=(i, port), daemon=True) for i in range(n_clients)]
        order = list(range(n_clients))
        order = order[seed % n_clients:] + order[:seed % n_clients]
        for i in order:
            threads[i].start()
        for t in threads:
            t.join(ROUND_LIMIT)
        if any(t.is_alive() for t in threads):
            raise lb.Inconclusive('round exceeded %d s' % ROUND_LIMIT)
        lb.wait_until(lambda: False, 0.3)
    if any(r is None or r['error'] == 'timeout' for r in results):
        raise lb.Inconclusive('library time-out in a client')
    records = rec.snapshot()
    overlap = len({r[1] for r in records})
    for i, (plan, out) in enumerate(zip(plans, results)):
        tag = plan['tag']
        expect_boom = plan['behaviour'] == 'abort-mid' or (plan['behaviour'] == 'abort-gen' and plan['find'])
        if isinstance(out['error'], Exception):
            raise Violation('%s:loopback:client-error:%s' % (PROP, lib_frame(out['error'])),
                            'client %s (%s) failed with %r while %d other clients were active; server: %s'
                            % (tag, plan['behaviour'], out['error'], n_clients - 1, err.getvalue()[-200:]), case)
        if (out['error'] == 'boom') != expect_boom:
            raise Violation('%s:loopback:client-flow' % PROP, 'client %s: error %r, expected abort=%s' % (tag, out['error'], expect_boom), case)
        # negotiated parameters are the client's own
        ctxs = out['contexts'] or {}
        classes = sorted(c[1] for c in ctxs.values())
        want_classes = sorted(([svc.VERIFICATION] if plan['echo'] else []) + plan['sops'] +
                              ([svc.PATIENT_FIND, svc.STUDY_FIND] if plan['find'] else []))
        if classes != want_classes or any(c[2] != plan['ts'] for c in ctxs.values()):
            raise Violation('%s:loopback:negotiation' % PROP, 'client %s negotiated %r, proposed %r in %s'
                            % (tag, sorted(ctxs.values()), want_classes, plan['ts']), case)
        if plan['echo'] and out['echo'] != 0:
            raise Violation('%s:loopback:echo' % PROP, 'client %s echo status %r' % (tag, out['echo']), case)
        want_status = [0xB000 if ('%s-%d' % (tag, k)).endswith('1') else 0 for k in range(out['completed_stores'])]
        if out['statuses'] != want_status:
            raise Violation('%s:loopback:status' % PROP, 'client %s store statuses %r, expected %r' % (tag, out['statuses'], want_status), case)
        mine = [r for r in records if r[1] == tag]
        stores = sorted((r[3], r[4]) for r in mine if r[0] == 'store')
        n_expected = out['completed_stores']
        want = sorted((str(make_instance(plan, k).SOPInstanceUID), ds_hash(make_instance(plan, k))) for k in range(n_expected))
        if stores != want:
            raise Violation('%s:loopback:stores' % PROP, 'server saw %d store(s) attributed to %s (%r), the client completed %d'
                            % (len(stores), tag, [s[0][-6:] for s in stores], n_expected), case)
        for r in mine:
            if r[0] in ('store', 'echo', 'find'):
                cid = int(r[2][0])
                if ctxs.get(cid) != r[2]:
                    raise Violation('%s:loopback:context' % PROP, 'handler for %s saw context %r, the client negotiated %r'
                                    % (tag, r[2], ctxs.get(cid)), case)
        if plan['find'] and out['find'] is not None:
            want_items = [('%s^%d' % (tag, k), 0xFF00) for k in range(plan['nmatch'])] + [(None, 0)]
            if out['find'] != want_items:
                raise Violation('%s:loopback:find' % PROP, 'client %s C-FIND returned %r, expected %r' % (tag, out['find'], want_items), case)
    foreign = [r for r in records if r[1] not in {p['tag'] for p in plans}]
    if foreign:
        raise Violation('%s:loopback:unattributed' % PROP, 'handler calls not attributable to any client: %r' % (foreign[:2],), case)
    return len(records)


def msg_id_part(nthreads, ncalls):
    """Message IDs the one-call c_find() wrapper puts on the wire, seen per calling thread: every thread's IDs are its
    own sequence (distinct, increasing), whatever the other threads do meanwhile."""
    import pynetdicom2
    FIND = '1.2.840.10008.5.1.4.1.2.1.1'
    seen = {}
    lock = threading.Lock()

    def responder(dul, rec):
        if rec['kind'] == 'pdu':
            t = rec['spec'].get('t')
            if t == 1:
                pcs = [it for it in rec['spec']['items'] if it['t'] == 0x20]
                return [fd.incoming_pdu(fd.ac_spec([(it['id'], 0, it['ts'][0]['name']) for it in pcs], 16384))]
            if t == 5:
                return [fd.incoming_pdu({'t': 6, 'r1': 0, 'r2': 0})]
            return []
        if rec['fields'].get(0x0100) == 0x0020:
            with lock:
                seen.setdefault(threading.current_thread().name, []).append(rec['fields'].get(0x0110))
            if rec['fields'].get(0x0110) % 4 == 2:
                # this query the peer does not answer: it aborts the association (the caller handles that and goes on)
                return [fd.incoming_pdu({'t': 7, 'r1': 0, 'r2': 0, 'r3': 0, 'source': 2, 'reason': 0})]
            f = {0x0002: rec['fields'].get(0x0002), 0x0100: 0x8020, 0x0120: rec['fields'].get(0x0110), 0x0900: 0}
            pc = rec['pc_ids'][0]
            return [lambda: fd.incoming_msg(dul, f, None, pc)]
        return []

    class Fac(fd.Factory):
        def __call__(self, *a, **kw):
            with lock:
                d = fd.Factory.__call__(self, *a, **kw)
            d.responder = responder
            return d
    errors = []

    def worker(i):
        try:
            from pynetdicom2 import exceptions
            for _ in range(ncalls):
                try:
                    list(pynetdicom2.c_find({'aet': 'SRV', 'address': 'peer.example', 'port': 104}, 'CLI%d' % i,
                                            svc.simple_ds(QueryRetrieveLevel='PATIENT', PatientID='*'), FIND))
                except exceptions.AssociationAbortedError:
                    pass
        except Exception as exc:     # noqa
            errors.append(exc)
    with fd.installed(Fac()):
        ths = [threading.Thread(target=worker, args=(i,), name='vf-msgid-%d' % i) for i in range(nthreads)]
        for t in ths:
            t.start()
        for t in ths:
            t.join()
    if errors:
        raise Violation('%s:msg-id:exception:%s' % (PROP, lib_frame(errors[0])), 'c_find() from %d threads at once raised %r'
                        % (nthreads, errors[0]), {'part': 'msgid'})
    for i, ids in seen.items():
        if len(ids) != ncalls or len(set(ids)) != len(ids) or any(b <= a for a, b in zip(ids, ids[1:])):
            raise Violation('%s:msg-id' % PROP, 'one thread\'s %d c_find() calls went out with message ids %r'
                            % (ncalls, ids[:8]), {'part': 'msgid'})


# ------------------------------------------------------------------------------------------------
# part c: the building blocks used by every association must be re-entrant

def thread_stress(n_threads=8, rounds=60):
    """Encoding/decoding PDUs, fragmenting messages (bytes and file-like data sets), computing command group
    lengths and classifying statuses happen in the threads of all associations at once.  Every operation is a pure
    function of its own inputs: its result under heavy thread switching must equal the single-threaded result."""
    import io
    import sys
    from .. import pdugen as g, dimsegen as dg, convs
    from .c06 import default_fields
    from pynetdicom2 import statuses, dimsemessages
    case = {'part': 'thread-stress'}

    def op_pdu(spec):
        obj = g.build(spec)
        raw = obj.encode()
        back = g.extract(g.pdu_class(spec['t']).decode(raw))
        return raw, canon(back)

    def op_send(cf, M, n, as_file, salt):
        spec = {'cf': cf, 'fields': default_fields(cf, salt), 'data': patterned(n, salt) if n else None}
        msg = dg.build_msg(spec, 'bytesio' if as_file else 'bytes')
        assoc = dg.make_assoc(M)
        assoc.send(msg, 1 + 2 * salt)
        return [bytes(v.data_value) for p in assoc.dul.sent[0] for v in p.data_value_items]

    def op_status(code, cmd):
        st_ = statuses.Status(code, cmd)
        return st_.status_type, int(st_)

    def op_fragments(k, times):
        # what every provider thread does all the time: encode the single-PDV P-DATA-TF PDUs of a message, one by one
        obj = g.build({'t': 4, 'r': 0, 'pdvs': [{'id': 1 + 2 * k, 'data': patterned(40 + 333 * k, k)}]})
        first = obj.encode()
        for _ in range(times):
            if obj.encode() != first:
                return 'differs'
        return first

    ops = []
    for k in range(6):
        pdvs = [{'id': 1 + 2 * j, 'data': patterned(3000 + 500 * k + j, k + j)} for j in range(4)]
        ops.append(('pdu', op_pdu, ({'t': 4, 'r': 0, 'pdvs': pdvs},)))
        ops.append(('pdata-fragment', op_fragments, (k, 40)))
    ops.append(('pdu', op_pdu, (convs.RQ_SPEC,)))
    ops.append(('pdu', op_pdu, (convs.AC_SPEC,)))
    for k, cf in enumerate((0x0001, 0x8020, 0x0020, 0x8021, 0x0130, 0x0110)):
        ops.append(('send', op_send, (cf, 64 + 8 * k, 700 + 90 * k, False, k)))
        ops.append(('send-file', op_send, (cf, 70 + 8 * k, 650 + 70 * k, True, k)))
    for code, cmd in ((0xFF00, dimsemessages.CFindRSPMessage), (0xB000, dimsemessages.CStoreRSPMessage),
                      (0xFE00, dimsemessages.CGetRSPMessage), (0xC123, dimsemessages.CMoveRSPMessage), (0x0110, None)):
        ops.append(('status', op_status, (code, cmd)))
    expected = [fn(*args) for _, fn, args in ops]
    errors = []

    def worker(t):
        try:
            for r in range(rounds):
                for i in range(len(ops)):
                    j = (i * 7 + t * 3 + r) % len(ops)
                    name, fn, args = ops[j]
                    if fn(*args) != expected[j]:
                        errors.append((name, j, t, r))
                        return
        except Exception as exc:
            errors.append(('exception:%s' % lib_frame(exc), repr(exc), t, 0))
    old = sys.getswitchinterval()
    sys.setswitchinterval(1e-6)
    try:
        ths = [threading.Thread(target=worker, args=(t,), daemon=True) for t in range(n_threads)]
        for t in ths:
            t.start()
        for t in ths:
            t.join(120)
    finally:
        sys.setswitchinterval(old)
    if errors:
        name = errors[0][0]
        raise Violation('%s:thread-safety:%s' % (PROP, name), 'operation %r gave a different result when %d threads ran it '
                        'concurrently (first mismatch: %r)' % (name, n_threads, errors[0][1:]), case)
    return len(ops) * rounds * n_threads


# ------------------------------------------------------------------------------------------------
# part b: baton-scheduled acceptors on scripted providers

class Blocked(BaseException):
    """(holder, waiter): association `holder` had the turn and made no progress for STUCK_AFTER seconds."""


class Baton(object):
    def __init__(self, n, order):
        self.cv = threading.Condition()
        self.alive = set(range(n))
        self.order = list(order) or [0]
        self.pos = 0
        self.current = None
        self.switches = 0
        self.failed = None

    def _choose(self):
        if not self.alive:
            return None
        k = self.order[self.pos % len(self.order)]
        self.pos += 1
        al = sorted(self.alive)
        return al[k % len(al)]

    def begin(self):
        with self.cv:
            self.current = self._choose()
            self.cv.notify_all()

    STUCK_AFTER = 20.0

    def _stuck(self, i):
        # thread `current` was given the turn and did not reach its next scheduling point: all I/O is scripted, so
        # it can only be waiting for something another association's thread holds while THAT waits for its peer
        if self.failed is None:
            self.failed = (self.current, i)
        self.alive.clear()
        self.current = None
        self.cv.notify_all()
        raise Blocked(self.failed)

    def wait_turn(self, i):
        with self.cv:
            while self.current != i:
                if self.failed is not None or not self.cv.wait(self.STUCK_AFTER):
                    self._stuck(i)

    def yield_(self, i):
        with self.cv:
            if self.failed is not None:
                raise Blocked(self.failed)
            nxt = self._choose()
            if nxt != i:
                self.switches += 1
            self.current = nxt
            self.cv.notify_all()
            while self.current != i:
                if self.failed is not None or not self.cv.wait(self.STUCK_AFTER):
                    self._stuck(i)

    def finish(self, i):
        with self.cv:
            self.alive.discard(i)
            self.current = self._choose()
            self.cv.notify_all()


def assoc_script(j, variant):
    """Association j: contexts, transfer syntax, peer max length and message list (plain data)."""
    ts = TSS[(j + variant) % 3]
    ids = [1 + 2 * j, 21 + 2 * j, 101 + 2 * j]
    msgs = []
    n = 2 + (j + variant) % 3
    for k in range(n):
        kind = ('echo', 'store', 'find')[(j + k + variant) % 3]
        if kind == 'echo':
            msgs.append(({0x0002: svc.VERIFICATION, 0x0100: 0x0030, 0x0110: 10 * j + k}, None, ids[0]))
        elif kind == 'store':
            # variants 3..5: every association stores the SAME instance UIDs (different content) into one directory
            inst = '1.2.3.%d.%d' % (j + 1, k + 1) if variant < 3 else '1.2.3.777.1'
            ds = svc.simple_ds(PatientName='A%d^%d' % (j, k), PatientID='P%d-%d' % (j, k), SOPClassUID=svc.SC_STORAGE,
                               SOPInstanceUID=inst,
                               EncapsulatedDocument=patterned(40 + 90 * j, j + k))
            msgs.append(({0x0002: svc.SC_STORAGE, 0x0100: 0x0001, 0x0110: 10 * j + k, 0x0700: 0,
                          0x1000: str(ds.SOPInstanceUID)}, svc.enc_ds(ds, ts), ids[1]))
        else:
            q = svc.simple_ds(PatientID='Q%d' % j, StudyID=str((j + k) % 3), QueryRetrieveLevel='PATIENT')
            msgs.append(({0x0002: svc.PATIENT_FIND, 0x0100: 0x0020, 0x0110: 10 * j + k, 0x0700: 0}, svc.enc_ds(q, ts), ids[2]))
    if variant == 4 and j == 0:
        # this peer sends an instance whose UID cannot be turned into a file name in the storage directory: its
        # association fails at that point - the others must not notice
        bad = svc.simple_ds(PatientName='Bad^Uid', PatientID='P-bad', SOPClassUID=svc.SC_STORAGE, SOPInstanceUID='1.2.3.4')
        msgs.insert(0, ({0x0002: svc.SC_STORAGE, 0x0100: 0x0001, 0x0110: 999, 0x0700: 0, 0x1000: '1.2.3/no-such-dir/4'},
                        svc.enc_ds(bad, ts), ids[1]))
    return {'ts': ts, 'contexts': [(ids[0], svc.VERIFICATION), (ids[1], svc.SC_STORAGE), (ids[2], svc.PATIENT_FIND)],
            'max_len': [64, 200, 1024, 16384][(j + variant) % 4], 'calling': 'PEER%d' % j, 'messages': msgs,
            'end': ('release', 'abort', 'timeout')[(j + variant) % 3]}


YIELD_HOOK = threading.local()


def handler_yield():
    """Application handlers are user code that may block (I/O, database): under the baton scheduler every
    handler is a scheduling point too."""
    fn = getattr(YIELD_HOOK, 'fn', None)
    if fn is not None:
        fn()


def make_shared_server(storage_dir=None, few_classes=False):
    import pydicom
    import pynetdicom2
    from pynetdicom2 import sopclass, statuses, dimsemessages
    log = lb.Recorder()

    def on_echo(context):
        handler_yield()
        return statuses.SUCCESS

    def on_store(context, ds):
        handler_yield()
        got = pydicom.dcmread(ds)
        log.add(('store', threading.get_ident(), tuple(map(str, context)), str(got.PatientID)))
        return statuses.Status(0xB000 if str(got.PatientID).endswith('1') else 0, dimsemessages.CStoreRSPMessage)

    def on_find(context, ds):
        handler_yield()
        n = int(ds.StudyID)

        def gen():
            for i in range(n):
                handler_yield()
                yield svc.simple_ds(PatientName='%s^%d' % (ds.PatientID, i)), statuses.C_FIND_PENDING
        return gen()
    handlers = {'on_receive_echo': on_echo, 'on_receive_store': on_store, 'on_receive_find': on_find}
    if storage_dir is not None:
        # directory-backed storage as StorageAE does it
        handlers['get_file'] = pynetdicom2.ClientStorageAE(storage_dir, 'VERIF').get_file      # (as the packaged storage entities do)
    storage = sopclass.storage_scp
    if few_classes:
        # (an entity that also requests associations proposes everything it is configured with: keep that < 128)
        from .c17 import alias
        storage = alias(sopclass.storage_scp, [svc.SC_STORAGE, svc.CT_STORAGE])
    ae = svc.make_server(handlers, [sopclass.verification_scp, storage, sopclass.qr_find_scp], max_pdu=16384)
    if few_classes:
        ae.add_scu(sopclass.verification_scu)         # the entity also requests associations of its own
    return ae, log


def summarise(dul):
    out = []
    for r in dul.sent:
        if r['kind'] == 'pdu':
            out.append(('pdu', canon(r['spec'])))
        else:
            out.append(('msg', canon(r['fields']), r['data'], tuple(r['pc_ids']), tuple(r['pdu_lengths'])))
    return out


def run_acceptors(scripts, order):
    """Run len(scripts) acceptors on one shared AE under the baton; returns per-association summaries."""
    from pynetdicom2 import asceprovider
    n = len(scripts)
    baton = Baton(n, order) if n > 1 else None
    import tempfile
    import shutil
    tmpdir = tempfile.mkdtemp(prefix='vf_c20_')
    ae, log = make_shared_server(tmpdir, few_classes=True)
    tl = threading.local()
    duls = [None] * n
    errors = [None] * n

    class BatonDUL(fd.FakeDUL):
        def send(self, primitive):
            if baton is not None:
                baton.yield_(self.index_)
            fd.FakeDUL.send(self, primitive)

        def receive(self, timeout):
            if baton is not None:
                baton.yield_(self.index_)
            return fd.FakeDUL.receive(self, timeout)

    def requester_peer(dul, rec):
        if rec['kind'] == 'pdu':
            t = rec['spec'].get('t')
            if t == 1:
                pcs = [it for it in rec['spec']['items'] if it['t'] == 0x20]
                return [fd.incoming_pdu(fd.ac_spec([(it['id'], 0, it['ts'][0]['name']) for it in pcs], 16384,
                                                   rec['spec']['called'], rec['spec']['calling']))]
            if t == 5:
                return [fd.incoming_pdu({'t': 6, 'r1': 0, 'r2': 0})]
            return []
        f = {0x0002: rec['fields'].get(0x0002), 0x0100: rec['fields'].get(0x0100) | 0x8000,
             0x0120: rec['fields'].get(0x0110), 0x0900: 0}
        pc = rec['pc_ids'][0]
        return [lambda: fd.incoming_msg(dul, f, None, pc)]

    def factory(store_in_file, get_file_cb, dul_socket=None, max_pdu_length=65536):
        j = tl.index
        d = BatonDUL(store_in_file, get_file_cb, dul_socket, max_pdu_length)
        d.index_ = j
        duls[j] = d
        sc = scripts[j]
        if sc.get('role') == 'requester':
            d.responder = requester_peer
            return d
        svc.primary_plan(sc['contexts'], sc['messages'] + (['release'] if sc['end'] == 'release' else
                         [{'pdu': {'t': 7, 'r1': 0, 'r2': 0, 'r3': 0, 'source': 0, 'reason': 0}}] if sc['end'] == 'abort' else []),
                         ts=sc['ts'], max_len=sc['max_len'], calling=sc['calling'])(d)
        return d

    def body(j):
        tl.index = j
        try:
            if baton is not None:
                YIELD_HOOK.fn = lambda: baton.yield_(j)
                baton.wait_turn(j)
            if scripts[j].get('role') == 'requester':
                # the same entity requests an association of its own (as its C-MOVE / commitment code does) while
                # it serves the others; its peer answers whenever the schedule lets it
                with ae.request_association({'aet': scripts[j]['calling'], 'address': 'peer.example', 'port': 104}) as assoc:
                    for k in range(scripts[j]['echoes']):
                        assoc.get_scu(svc.VERIFICATION)(100 + k)
                return
            asceprovider.AssociationAcceptor(fd.FakeRequest(), ('127.0.0.1', 5000 + j), ae, ae.max_pdu_length)
        except BaseException as exc:    # noqa
            errors[j] = exc
        finally:
            if baton is not None:
                baton.finish(j)
    try:
        with fd.installed(factory):
            ths = [threading.Thread(target=body, args=(j,), daemon=True) for j in range(n)]
            for t in ths:
                t.start()
            if baton is not None:
                baton.begin()
            import time as _time
            deadline = _time.time() + 45
            for t in ths:
                t.join(max(0.1, deadline - _time.time()))
            for j, t in enumerate(ths):
                if t.is_alive():
                    # all I/O of these bodies is scripted: a body that never returns waits for something another
                    # association holds (or left behind)
                    errors[j] = Blocked(baton.failed if baton is not None and baton.failed is not None else (j, j))
    finally:
        ae.server_close()
        shutil.rmtree(tmpdir, ignore_errors=True)
    return [summarise(d) if d is not None else None for d in duls], errors, (baton.switches if baton else 0)


def baton_case(value):
    k, variant, order = value[:3]
    requesters = value[3] if len(value) > 3 else 0
    case = {'part': 'baton', 'k': k, 'variant': variant, 'order': order, 'requesters': requesters}
    scripts = [assoc_script(j, variant) for j in range(k)]
    scripts += [{'role': 'requester', 'calling': 'OUT%d' % r, 'echoes': 1 + (variant + r) % 2, 'max_len': 0}
                for r in range(requesters)]
    together, errs, switches = run_acceptors(scripts, order)
    blocked = [e for e in errs if isinstance(e, Blocked)]
    if blocked:
        holder, waiter = blocked[0].args[0]
        raise Violation('%s:baton:blocked' % PROP, 'association %d (%s) made no progress for %.0f s although it had the processor: '
                        'it waits for something held by another association that is itself only waiting for its peer '
                        '(%d associations, %d of them requested by the entity)'
                        % (holder, scripts[holder].get('role', 'acceptor'), Baton.STUCK_AFTER, len(scripts), requesters), case)
    k = len(scripts)
    for j in range(k):
        alone, errs1, _ = run_acceptors([scripts[j]], [0])
        if isinstance(errs1[0], Blocked):
            raise Violation('%s:baton:blocked' % PROP, 'association %d never returns even when it runs alone AFTER the others ran: '
                            'an earlier association left something behind that it waits for' % j, case)
        if scripts[j].get('role') == 'requester' and errs1[0] is not None:
            raise HarnessError('the requesting body fails on its own: %r' % (errs1[0],))
        if errs[j] is not None or errs1[0] is not None:
            if repr(errs[j]) != repr(errs1[0]):
                raise Violation('%s:baton:error' % PROP, 'association %d: interleaved run ended with %r, run alone with %r'
                                % (j, errs[j], errs1[0]), case)
        if together[j] != alone[0]:
            n = min(len(together[j] or []), len(alone[0] or []))
            pos = next((p for p in range(n) if together[j][p] != alone[0][p]), n)
            raise Violation('%s:baton:output' % PROP, 'association %d of %d: what it sent differs from a solo run at item %d '
                            '(%d vs %d items)' % (j, k, pos, len(together[j] or []), len(alone[0] or [])), case)
        lim = scripts[j]['max_len']
        for item in together[j] or []:
            if item[0] == 'msg' and lim and max(item[4]) > lim:
                raise Violation('%s:baton:max-length' % PROP, 'association %d sent a P-DATA-TF of %d bytes, its peer allows %d'
                                % (j, max(item[4]), lim), case)
    return switches


# ------------------------------------------------------------------------------------------
# part d: one requesting entity, several associations open at once: negotiated parameters stay apart

NEG_CLASSES = ['1.2.826.0.1.3680043.9.7000.%d' % i for i in range(6)]


def negotiation_case(value):
    """value = (number of classes, [reply pattern per association]); associations are opened nested (all open at
    the same time) on scripted providers, closed in reverse or in opening order."""
    import contextlib
    from pynetdicom2 import applicationentity, exceptions
    from .. import fakedul as fd
    ncls, patterns, fifo = value
    case = {'part': 'negotiation', 'ncls': ncls, 'patterns': patterns, 'fifo': fifo}
    classes = NEG_CLASSES[:ncls]

    def svc(asce, ctx, *a):
        return tuple(ctx)
    ae = applicationentity.ClientAE('CLI', ['1.2.840.10008.1.2', '1.2.840.10008.1.2.1'])
    ae.add_scu(svc, classes)
    ae.timeout = 0.01

    def plan_for(pattern):
        def responder(dul, rec):
            if rec['kind'] == 'pdu' and rec['spec'].get('t') == 1:
                pcs = [it for it in rec['spec']['items'] if it['t'] == 0x20]
                ans = []
                for k, it in enumerate(pcs):
                    result, choice = pattern[k % len(pattern)]
                    ans.append((it['id'], result, it['ts'][choice % len(it['ts'])]['name']))
                dul.answers = ans
                dul.proposed = {it['id']: it['abs']['name'] for it in pcs}
                return [fd.incoming_pdu(fd.ac_spec(ans, 16384, rec['spec']['called'], rec['spec']['calling']))]
            if rec['kind'] == 'pdu' and rec['spec'].get('t') == 5:
                return [fd.incoming_pdu({'t': 6, 'r1': 0, 'r2': 0})]
            return []
        return lambda d: setattr(d, 'responder', responder)
    fac = fd.Factory([plan_for(p) for p in patterns])

    def verify(i, assoc, when):
        dul = fac.instances[i]
        proposed = sorted(dul.proposed.values())
        if proposed != sorted(classes):
            raise Violation('C20:negotiation:proposal', 'association %d (%s) proposed %d of the %d configured classes'
                            % (i, when, len(proposed), len(classes)), case)
        want = {cid: (dul.proposed[cid], ts) for cid, result, ts in dul.answers if result == 0}
        got = {k: (str(v[1]), str(v[2])) for k, v in assoc.accepted_contexts.items()}
        if got != want:
            raise Violation('C20:negotiation:accepted', 'association %d (%s): accepted contexts %r, its peer accepted %r'
                            % (i, when, sorted(got.items()), sorted(want.items())), case)
        usable = {u: (cid, ts) for cid, (u, ts) in want.items()}
        for u in classes:
            try:
                ctx_ = assoc.get_scu(u)()
            except exceptions.ClassNotSupportedError:
                if u in usable:
                    raise Violation('C20:negotiation:lookup', 'association %d (%s): no service for %s although its peer '
                                    'accepted context %d' % (i, when, u, usable[u][0]), case)
                continue
            except Exception as exc:
                raise Violation('C20:negotiation:exception:%s' % lib_frame(exc), 'association %d (%s): get_scu raised %r'
                                % (i, when, exc), case)
            if u not in usable or (ctx_[0], str(ctx_[2])) != usable[u]:
                raise Violation('C20:negotiation:lookup', 'association %d (%s): service for %s bound to %r, its own '
                                'negotiation gave %r' % (i, when, u, ctx_, usable.get(u)), case)
    with fd.installed(fac):
        with contextlib.ExitStack() as stack:
            assocs = []
            try:
                for i in range(len(patterns)):
                    cm = ae.request_association({'aet': 'SRV%d' % i, 'address': 'peer.example', 'port': 104})
                    assocs.append(stack.enter_context(cm))
                    for j, a in enumerate(assocs):
                        verify(j, a, 'after opening %d' % i)
                if fifo:
                    # release the oldest first; the remaining ones must be unaffected
                    assocs[0].release()
                    for j, a in enumerate(assocs[1:], 1):
                        verify(j, a, 'after releasing 0')
            except Violation:
                raise
            except Exception as exc:
                raise Violation('C20:negotiation:exception:%s' % lib_frame(exc), 'requesting %d associations from one '
                                'entity raised %r' % (len(patterns), exc), case)
    return len(patterns)


negotiation_cases = st.tuples(
    st.integers(1, 6),
    st.lists(st.lists(st.tuples(st.sampled_from([0, 0, 1, 2, 3, 4]), st.integers(0, 1)), min_size=1, max_size=6),
             min_size=2, max_size=4),
    st.booleans())


def run_negotiation(ctx, n):
    def fn(value):
        k = negotiation_case(value)
        results = [{r for r, _ in p} for p in value[1]]
        ctx.case(('neg', value), any(0 in r for r in results) and any(r - {0} for r in results),
                 labels=['negotiation', 'associations=%d' % k] + (['refusal-3/4'] if any(r & {3, 4} for r in results) else []),
                 sample={'classes': value[0], 'patterns': value[1], 'fifo': value[2]})
    hyp_search(ctx, negotiation_cases, fn, n, name='C20-negotiation')


# ------------------------------------------------------------------------------------------
# part e: reassembly state belongs to one association

def decoder_interleaving_case(value):
    """K associations receive one message each, command sets and data sets fragmented (small maximum length); their
    P-DATA-TF PDUs reach the K reassemblers in a drawn interleaving.  Every association ends up with its own message,
    exactly as when it is fed alone."""
    from pynetdicom2 import fsm, pdu, dsutils, asceprovider
    from pydicom import uid
    from .. import dimsegen as dg, refcmd, refpdu
    specs, M, order = value
    case = {'part': 'decoders', 'specs': specs, 'M': M, 'order': order}
    streams = []
    for j, spec in enumerate(specs):
        cmd = refcmd.encode(dg.expected_fields(spec))
        frags = dg.ref_fragments(cmd, spec['data'], M, 1 + 2 * j)
        streams.append([refpdu.enc_pdu({'t': 4, 'r': 0, 'pdvs': [f]}) for f in frags])

    def new_decoder(j):
        sop = specs[j]['fields'].get('AffectedSOPClassUID') or specs[j]['fields'].get('RequestedSOPClassUID') or '1.2.3'
        ctxs = {1 + 2 * j: asceprovider.PContextDef(1 + 2 * j, uid.UID(sop), uid.UID('1.2.840.10008.1.2'))}
        try:
            return fsm.DIMSEDecoder(ctxs, frozenset(), None)
        except TypeError as exc:
            raise HarnessError('fsm.DIMSEDecoder cannot be constructed as anchored: %r' % (exc,))

    def result(dec):
        if dec.receiving:
            return ('incomplete',)
        ds = dec.msg.data_set
        return (type(dec.msg).__name__, dec.pc_id, dsutils.encode(dec.msg.command_set, True, True), ds)
    alone = []
    for j, st_ in enumerate(streams):
        d = new_decoder(j)
        try:
            for raw in st_:
                d.process(pdu.PDataTfPDU.decode(raw))
            alone.append(result(d))
        except Exception as exc:
            raise HarnessError('message %d does not reassemble on its own: %r' % (j, exc))
    decs = [new_decoder(j) for j in range(len(specs))]
    pos = [0] * len(specs)
    k = 0
    while any(pos[j] < len(streams[j]) for j in range(len(specs))):
        live = [j for j in range(len(specs)) if pos[j] < len(streams[j])]
        j = live[order[k % len(order)] % len(live)]
        k += 1
        try:
            decs[j].process(pdu.PDataTfPDU.decode(streams[j][pos[j]]))
        except Exception as exc:
            raise Violation('%s:decoders:exception:%s' % (PROP, lib_frame(exc)), 'association %d of %d: reassembly raised %r when its '
                            'PDUs alternate with those of other associations (it reassembles fine alone)' % (j, len(specs), exc), case)
        pos[j] += 1
    for j in range(len(specs)):
        try:
            got = result(decs[j])
        except Exception as exc:
            raise Violation('%s:decoders:exception:%s' % (PROP, lib_frame(exc)), 'association %d: %r' % (j, exc), case)
        if got != alone[j]:
            raise Violation('%s:decoders:mixed-up' % PROP, 'association %d of %d reassembled %s, alone it reassembles %s'
                            % (j, len(specs), got[:2], alone[j][:2]), case)
    return sum(len(s_) for s_ in streams)


def run_decoders(ctx, n):
    from .. import dimsegen as dg
    strat = st.tuples(st.lists(dg.message(max_data=120), min_size=2, max_size=4), st.sampled_from([7, 12, 16, 24, 38, 64, 4096]),
                      st.lists(st.integers(0, 3), min_size=1, max_size=30))

    def fn(value):
        npdus = decoder_interleaving_case(value)
        ctx.case(('decoders', value), npdus >= 2 * len(value[0]) + 2, labels=['decoder-interleaving', 'k=%d' % len(value[0])],
                 sample={'associations': len(value[0]), 'M': value[1], 'pdus': npdus})
    hyp_search(ctx, strat, fn, n, name='C20-decoders')


# ------------------------------------------------------------------------------------------
# part f: a long-lived server; associations that fail, in every way an association can fail, one after the other

FAILURES = ('bad-userinfo', 'no-userinfo', 'abort-at-once', 'handler-boom', 'refused', 'wrong-message', 'no-context')


def failing_plan(kind):
    rq = fd.rq_spec([(1, svc.VERIFICATION, [svc.IMPLICIT])], 16384)
    echo = ({0x0002: svc.VERIFICATION, 0x0100: 0x0030, 0x0110: 5}, None, 1)

    def plan(dul):
        if kind == 'bad-userinfo':
            # legal (PS3.8 does not order the sub-items), but unusual: Maximum Length does not come first
            spec = dict(rq, items=[dict(it, subs=[{'t': 0x52, 'r': 0, 'uid': '1.2.3.4'}] + list(it['subs']))
                                   if it['t'] == 0x50 else it for it in rq['items']])
            dul.push_pdu(spec)
            dul.push_msg(*echo)
            dul.push_pdu({'t': 5, 'r1': 0, 'r2': 0})
        elif kind == 'no-userinfo':
            # not a valid request: the User Information item is missing altogether
            dul.push_pdu(dict(rq, items=[it for it in rq['items'] if it['t'] != 0x50]))
            dul.push_pdu({'t': 7, 'r1': 0, 'r2': 0, 'r3': 0, 'source': 0, 'reason': 0})
        elif kind == 'no-context':
            dul.push_pdu(fd.rq_spec([(1, '1.2.3.4.5.6.7', [svc.IMPLICIT])], 16384))
            dul.push_pdu({'t': 7, 'r1': 0, 'r2': 0, 'r3': 0, 'source': 0, 'reason': 0})
        else:
            dul.push_pdu(rq)
            if kind == 'abort-at-once':
                dul.push_pdu({'t': 7, 'r1': 0, 'r2': 0, 'r3': 0, 'source': 2, 'reason': 1})
            elif kind == 'wrong-message':
                # a C-STORE-RQ on the verification context: no service of the entity can take it
                dul.push_msg({0x0002: svc.VERIFICATION, 0x0100: 0x0001, 0x0110: 5, 0x0700: 0, 0x1000: '1.2.3'}, b'\x08\x00\x18\x00\x02\x00\x00\x001\x00', 1)
            else:
                dul.push_msg(*echo)
                dul.push_pdu({'t': 5, 'r1': 0, 'r2': 0})
    return plan


def long_lived_server(program):
    """program: [(failure kind, count)]; after each run of failing associations an ordinary one must be served."""
    from pynetdicom2 import exceptions, sopclass, statuses
    case = {'part': 'long-lived', 'program': [list(p) for p in program]}
    cur = {'kind': None}

    def on_rq(asce, assoc):
        if cur['kind'] == 'refused':
            raise exceptions.AssociationRejectedError(1, 1, 3)

    def on_echo(context):
        if cur['kind'] == 'handler-boom':
            raise Boom('handler failed')
        return statuses.SUCCESS
    ae = svc.make_server({'on_association_request': on_rq, 'on_receive_echo': on_echo}, [sopclass.verification_scp])
    done = 0
    try:
        for kind, count in program:
            for _ in range(count):
                cur['kind'] = kind
                # (run_acceptor hands back whatever the failing association ended with; how it ends is not judged here)
                acc, fac, exc = fd.run_acceptor(ae, [failing_plan(kind)])
                if isinstance(exc, (KeyError, TypeError)) and 'vf/' in ''.join(traceback.format_tb(exc.__traceback__)[-1:]):
                    raise HarnessError('scripted plan %s failed in the harness: %r' % (kind, exc))
                done += 1
            cur['kind'] = None
            acc, fac, exc = fd.run_acceptor(ae, [svc.primary_plan([(1, svc.VERIFICATION)], [
                ({0x0002: svc.VERIFICATION, 0x0100: 0x0030, 0x0110: 9}, None, 1), 'release'])])
            dul = fac.instances[0]
            kinds = [r['spec'].get('t') for r in dul.sent_pdus()]
            served = [(r['fields'].get(0x0120), r['fields'].get(0x0900)) for r in dul.sent_msgs()]
            if exc is not None or kinds != [2, 6] or served != [(9, 0)]:
                raise Violation('%s:long-lived:disturbed' % PROP, 'after %d failed associations (the last %d: %s) an ordinary '
                                'association on the same entity was not served: PDUs sent %r, responses %r, exception %r'
                                % (done, count, kind, kinds, served, exc), case)
    finally:
        ae.server_close()


def shard_baton(ctx, job):
    quiet_warnings()
    strat = st.tuples(st.integers(2, 4), st.integers(0, 5), st.lists(st.integers(0, 4), min_size=1, max_size=40),
                      st.sampled_from([0, 0, 1, 2]))

    def fn(value):
        try:
            sw = baton_case(value)
        except Violation as v:
            if not v.key.endswith('baton:blocked'):
                raise
            if v.key in ctx.failures:
                ctx.failures[v.key]['count'] += 1
                return
            # "no progress for 20 s" is a timing signal: it counts only if the very same schedule blocks again
            # (a loaded machine does not stall the same step twice), and it is not shrunk (each attempt costs 20 s)
            try:
                baton_case(value)
            except Violation as v2:
                if v2.key.endswith('baton:blocked'):
                    ctx.fail(v2.key, v2.what + ' [reproduced on a second run of the same schedule]', v2.case)
                    ctx.case(('baton', value), True, labels=['baton', 'blocked'])
                    return
                raise
            ctx.inconclusive += 1
            ctx.label('baton-stall-not-reproduced')
            return
        ctx.case(('baton', value), sw >= 2, labels=['baton', 'k=%d' % value[0], 'own-requests=%d' % value[3], 'switches>=10' if sw >= 10 else 'switches<10'],
                 sample={'associations': value[0], 'variant': value[1], 'order': value[2], 'baton_switches': sw})
    hyp_search(ctx, strat, fn, job['n'], name='C20-baton', max_buckets=3)


def silent_connections_case(n_silent):
    """Connections on which the peer says nothing (a port probe, a peer that is slow to start) are associations that
    have not got anywhere yet: while they sit there, every other peer is served as promptly as ever."""
    import socket
    import time
    from pynetdicom2 import applicationentity, sopclass, exceptions
    case = {'part': 'silent-connections', 'n': n_silent}
    ae = applicationentity.AE('SRV', 0, None, 16384)
    ae.add_scp(sopclass.verification_scp)
    worst = []
    for attempt in range(3):
        silent = []
        try:
            with lb.quiet_stderr(), lb.serving(ae if attempt == 0 else _fresh_echo_server()) as port:
                for _ in range(n_silent):
                    silent.append(socket.create_connection(('127.0.0.1', port), timeout=5))
                time.sleep(0.2)
                t0 = time.time()
                err = None
                try:
                    cae = applicationentity.ClientAE('CLI', [svc.IMPLICIT])
                    cae.timeout = 6
                    cae.add_scu(sopclass.verification_scu)
                    with cae.request_association({'aet': 'SRV', 'address': '127.0.0.1', 'port': port}) as assoc:
                        status = int(assoc.get_scu(svc.VERIFICATION)(1))
                except Exception as exc:     # noqa
                    err, status = exc, None
                took = time.time() - t0
                for s_ in silent:        # (before the server is closed: it waits for its handler threads)
                    s_.close()
        finally:
            for s_ in silent:
                try:
                    s_.close()
                except Exception:
                    pass
        if err is None and status == 0 and took < 3.0:
            return
        worst.append((round(took, 1), repr(err), status))
    # (real time: reported only if it happened three times in a row)
    raise Violation('%s:loopback:silent-connection-disturbs' % PROP, 'with %d connection(s) open on which the peer has not sent '
                    'anything yet, an ordinary C-ECHO association to the same entity took / failed (seconds, error, status) %r '
                    'in three attempts' % (n_silent, worst), case)


def vanishing_sender_case(ending, nfrag, n_vanish=2):
    """Associations whose peer vanishes ('close') or aborts ('abort') in the MIDDLE of a C-STORE - command set and `nfrag`
    fragments of a big data set delivered, the rest never - are over; ordinary associations that store SHORTER instances
    on the same entity afterwards get exactly what they sent (nothing of the interrupted transfers) and are served."""
    import socket
    import time
    import pydicom
    from pynetdicom2 import applicationentity, sopclass, statuses
    from .. import convs, refpdu, refcmd, dimsegen as dg
    from .c14 import _read_pdu
    case = {'part': 'vanishing-sender', 'ending': ending, 'nfrag': nfrag, 'n': n_vanish}
    got = []

    class Server(applicationentity.AE):
        def on_receive_store(self, context, ds):
            raw = ds.read()
            got.append(raw)
            return statuses.SUCCESS
    ae = Server('SRV', 0, None, 16384)
    ae.timeout = 5
    ae.add_scp(sopclass.verification_scp).add_scp(sopclass.storage_scp)
    big = svc.enc_ds(svc.simple_ds(PatientName='INTERRUPTED^TRANSFER', PatientID='GHOST', SOPClassUID=convs.STORE_UID,
                                   SOPInstanceUID='1.2.826.0.1.3680043.9.20.66.1', PixelData=b'\xEE' * 60000))
    cmd = refcmd.encode({0x0002: convs.STORE_UID, 0x0100: 0x0001, 0x0110: 7, 0x0700: 0, 0x0800: 0x0001,
                         0x1000: '1.2.826.0.1.3680043.9.20.66.1'})
    pdvs = dg.ref_fragments(cmd, big, 4096, 3)
    sent_small = []
    err = None
    with lb.quiet_stderr(), lb.serving(ae) as port:
        for _ in range(n_vanish):
            conn = socket.create_connection(('127.0.0.1', port), timeout=5)
            try:
                conn.sendall(refpdu.enc_pdu(convs.RQ_SPEC))
                ac = _read_pdu(conn)
                if ac is None or ac[0] != 2:
                    raise HarnessError('raw peer: association not accepted (%r)' % (ac[:1] if ac else None,))
                for v in pdvs[:1 + nfrag]:
                    conn.sendall(refpdu.enc_pdu({'t': 4, 'r': 0, 'pdvs': [v]}))
                if ending == 'abort':
                    conn.sendall(refpdu.enc_pdu({'t': 7, 'r1': 0, 'r2': 0, 'r3': 0, 'source': 0, 'reason': 0}))
                    time.sleep(0.1)
            finally:
                conn.close()
        time.sleep(0.5)      # (the entity notices the endings)
        try:
            for k in range(3):
                cae = applicationentity.ClientAE('CLI%d' % k, [svc.IMPLICIT])
                cae.timeout = 8
                cae.add_scu(sopclass.storage_scu, [convs.STORE_UID])
                ds = svc.simple_ds(PatientName='SMALL^%d' % k, PatientID='P%d' % k, SOPClassUID=convs.STORE_UID,
                                   SOPInstanceUID='1.2.826.0.1.3680043.9.20.67.%d' % k)
                with cae.request_association({'aet': 'SRV', 'address': '127.0.0.1', 'port': port}) as assoc:
                    status = int(assoc.get_scu(convs.STORE_UID)(ds, k + 1))
                sent_small.append((ds, status))
        except Exception as exc:     # noqa
            err = exc
    if err is not None:
        raise Violation('%s:vanishing-sender:later-association-fails:%s' % (PROP, lib_frame(err)), 'after %d associations whose peer '
                        'ended (%s) in the middle of a C-STORE, an ordinary store on the same entity raised %r' % (n_vanish, ending, err), case)
    if len(got) != len(sent_small):
        raise Violation('%s:vanishing-sender:handler-calls' % PROP, '%d complete instances were stored, the handler was called %d times '
                        '(an interrupted transfer is no instance)' % (len(sent_small), len(got)), case)
    import io
    for k, ((ds, status), raw) in enumerate(zip(sent_small, got)):
        if status != 0:
            raise Violation('%s:vanishing-sender:status' % PROP, 'store %d returned %04XH' % (k + 1, status), case)
        try:
            back = pydicom.dcmread(io.BytesIO(raw))
            body = pydicom.dataset.Dataset({kk: vv for kk, vv in back.items()})
            same = svc.ds_equal(body, ds) and raw.endswith(svc.enc_ds(ds))
        except Exception:     # noqa
            same = False
        if not same:
            raise Violation('%s:vanishing-sender:foreign-data' % PROP, 'store %d on a later association: the handler was given %d bytes '
                            'that are not the %d-byte instance sent (bytes of an interrupted transfer of ANOTHER association?)'
                            % (k + 1, len(raw), len(svc.enc_ds(ds))), case)


def shard_vanishing(ctx, job):
    quiet_warnings()
    ctx.case(('vanishing-sender', job['ending'], job['nfrag']), True, labels=['loopback', 'sender vanishes mid-C-STORE, later associations store'],
             sample={'ending': job['ending'], 'data fragments delivered': job['nfrag']})
    try:
        lb.reproduced(vanishing_sender_case, job['ending'], job['nfrag'])
    except lb.Inconclusive:
        ctx.inconclusive += 1
        ctx.label('inconclusive')
    except Violation as v:
        ctx.fail(v.key, v.what, v.case)


def _fresh_echo_server():
    from pynetdicom2 import applicationentity, sopclass
    ae = applicationentity.AE('SRV', 0, None, 16384)
    ae.add_scp(sopclass.verification_scp)
    return ae


def shard_silent(ctx, job):
    quiet_warnings()
    ctx.case(('silent-connections', job['n']), True, labels=['loopback', 'silent-connections'],
             sample={'silent connections': job['n']})
    ctx.check(silent_connections_case, job['n'])


def shard_loopback(ctx, job):
    quiet_warnings()
    for n, seed in job['rounds']:
        case = {'part': 'loopback', 'clients': n, 'seed': seed}
        try:
            nrec = run_round(n, seed)
            ctx.case(('loopback', n, seed), n >= 2, labels=['loopback', 'clients=%d' % n],
                     sample={'clients': n, 'seed': seed, 'handler_calls': nrec,
                             'plans': [client_plan(i, seed) for i in range(min(n, 3))]})
        except lb.Inconclusive:
            ctx.inconclusive += 1
            ctx.label('inconclusive')
        except Violation as v:
            ctx.fail(v.key, v.what, v.case)
            ctx.case(('loopback', n, seed), True, labels=['loopback', 'violating'])


def run(ctx):
    quiet_warnings()
    ctx.rule = ('part a: N concurrent client threads (own AE title, transfer syntax, maximum PDU length, SOP-class subset, '
                'instance UIDs and sizes; a third aborting after the first store or inside a half-consumed C-FIND '
                'generator) against one server entity over loopback TCP, R rounds with permuted start order; part b: '
                '2-4 AssociationAcceptor.handle() bodies plus 0-2 associations the same entity requests itself, sharing one AE on scripted providers, interleaved at every '
                'provider send/receive and inside every application handler by a baton scheduler whose order is Hypothesis-drawn, each compared with the '
                'same association run alone; message IDs of c_find() calls made from 8 threads at once; part c: PDU encode/decode, message fragmentation (bytes and file-like), group-length computation and status classification run in 8 threads under a 1 microsecond switch interval and must equal the single-threaded results; part d: one requesting entity with 2-4 associations open at the same time on scripted peers answering with Hypothesis-drawn result codes 0-4: each association proposes all configured classes and uses exactly what its own peer accepted; part e: 2-4 reassemblers (one per association) fed the fragmented messages of their associations in a drawn interleaving, each compared with being fed alone; part f: one long-lived entity on which 300 associations in a row fail in each of 7 ways (unusual sub-item order, request without user information, abort during negotiation, handler exception, refusal, a message no service can take, no acceptable context), an ordinary association after each run must be served; over real TCP, 1 / 3 connections on which the peer stays silent while an ordinary association must be served within 3 s; non-trivial = >=2 associations '
                'overlapping (>=2 baton switches / >=2 clients)')
    ctx.assumptions = ['part a samples OS schedules; part b enumerates interleavings at primitive granularity only',
                       'server-side calls are attributed to associations through the handler thread (one thread per association)',
                       'time-outs and rounds over %d s are inconclusive' % ROUND_LIMIT]
    try:
        msg_id_part(8, 25)
        ctx.case(('msgid',), True, labels=['msg-id'], sample={'threads': 8, 'c_find calls each': 25})
    except Violation as v:
        ctx.fail(v.key, v.what, v.case)
    try:
        n_ops = thread_stress(8, 400 if ctx.thorough else 60)
        ctx.case(('thread-stress',), True, labels=['thread-stress'], sample={'threads': 8, 'operations': n_ops})
        ctx.evaluations += n_ops
    except Violation as v:
        ctx.fail(v.key, v.what, v.case)
    for program in ([(k, 300) for k in FAILURES], [(k, 7) for k in FAILURES] * 8):
        ctx.case(('long-lived', program), True, labels=['long-lived-server'], sample={'program': program[:6]})
        ctx.check(long_lived_server, program)
    # (in worker processes: handler threads of the silent connections live on until their time-out and would slow
    #  down everything that follows in this process)
    parallel(ctx, shard_silent, [{'n': 1}, {'n': 3}], procs=2)
    parallel(ctx, shard_vanishing, [{'ending': e, 'nfrag': k} for e in ('close', 'abort') for k in ((0, 3, 9) if ctx.thorough else (3,))], procs=4)
    run_negotiation(ctx, 3000 if ctx.thorough else 200)
    run_decoders(ctx, 4000 if ctx.thorough else 300)
    s = ctx.seed
    if ctx.thorough:
        rounds = [(n, s * 100 + r) for n in (4, 8, 16, 32) for r in range(5)]
        parallel(ctx, shard_loopback, [{'rounds': rounds[i::10]} for i in range(10)], procs=10)
        parallel(ctx, shard_baton, [{'n': 600} for _ in range(16)])
    else:
        rounds = [(8, s * 100), (8, s * 100 + 1), (8, s * 100 + 2), (4, s * 100 + 3)]
        parallel(ctx, shard_loopback, [{'rounds': [r]} for r in rounds], procs=4)
        parallel(ctx, shard_baton, [{'n': 13} for _ in range(8)])


def replay(case):
    quiet_warnings()
    if case['part'] == 'loopback':
        try:
            run_round(case['clients'], case['seed'])
        except lb.Inconclusive as inc:
            print('inconclusive: %s' % inc)
    elif case['part'] == 'thread-stress':
        thread_stress(8, 200)
    elif case['part'] == 'silent-connections':
        silent_connections_case(case['n'])
    elif case['part'] == 'vanishing-sender':
        vanishing_sender_case(case['ending'], case['nfrag'], case.get('n', 2))
    elif case['part'] == 'long-lived':
        long_lived_server([tuple(p) for p in case['program']])
    elif case['part'] == 'decoders':
        decoder_interleaving_case((case['specs'], case['M'], case['order']))
    elif case['part'] == 'negotiation':
        negotiation_case((case['ncls'], [[tuple(x) for x in p] for p in case['patterns']], case['fifo']))
    elif case['part'] == 'baton':
        baton_case((case['k'], case['variant'], case['order'], case.get('requesters', 0)))
    else:
        msg_id_part(8, 25)
