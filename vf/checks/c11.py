"""C11 - requester: well-formed proposal, accepted contexts and service lookup agree (fakedul)."""
from __future__ import annotations

import itertools
import warnings

from hypothesis import strategies as st

from .. import fakedul as fd, refpdu
from ..common import Violation, HarnessError, hyp_search, parallel, lib_frame, quiet_warnings

LEVEL = 'exploration'

POOL = ['1.2.826.0.1.3680043.9.5000.%d' % i for i in range(200)]
TSS = ['1.2.840.10008.1.2', '1.2.840.10008.1.2.1', '1.2.840.10008.1.2.2']
APP = '1.2.840.10008.3.1.1.1'


class ServiceObject(object):
    """A service given as a callable object that happens to be falsy (an empty container of its own)."""

    def __init__(self, tag):
        self.tag, self.sop_classes, self.__name__ = tag, [], 'svcobj%d' % tag

    def __len__(self):
        return 0

    def __call__(self, asce, ctx, *args):
        return (self.tag, tuple(ctx), args)


def make_service(tag):
    if tag % 3 == 2:
        return ServiceObject(tag)

    def svc(asce, ctx, *args):
        return (tag, tuple(ctx), args)
    svc.sop_classes = []
    svc.__name__ = 'svc%d' % tag
    return svc


def build_ae(config):
    """config: {'kind': 'client'|'ae', 'ts': [indices], 'max': int, 'aet': str,
                'adds': [('scu'|'scp', [class indices])]}"""
    from pynetdicom2 import applicationentity
    ts = [TSS[i] for i in config['ts']] or None
    if config['kind'] == 'client':
        ae = applicationentity.ClientAE(config['aet'], ts, config['max'])
    else:
        ae = fd.make_ae(config['aet'], ts, config['max'])
    ae.timeout = 0.01
    services = []
    for i, (role, classes) in enumerate(config['adds']):
        if role == 'request':
            # history: an association was already requested (and released) with the configuration so far;
            # `classes` is the cycle of result codes that peer answered with ([] = accepted everything)
            warm_up_request(ae, classes)
            continue
        if role == 'remove':
            # the application stops proposing some classes: it deletes their entries from the public
            # context_def_list (there is no other way); later add_* calls must not disturb the remaining ones
            gone = {POOL[c] for c in classes}
            for cid in [k for k, v in ae.context_def_list.items() if str(v.sop_class) in gone]:
                del ae.context_def_list[cid]
            continue
        if role == 'ts':
            # the documented public attribute is changed between two add_* calls: classes configured from
            # here on are to be proposed with these syntaxes, the earlier ones keep theirs
            ae.supported_ts = frozenset(TSS[c] for c in classes)
            continue
        svc = make_service(i)
        uids = [POOL[c] for c in classes]
        if role == 'scu':
            ae.add_scu(svc, uids)
        else:
            svc.sop_classes = uids
            ae.add_scp(svc)
        services.append((role, svc, uids))
    return ae, services


def warm_up_request(ae, results=()):
    results = list(results) or [0]

    def responder(dul, rec):
        if rec['kind'] == 'pdu' and rec['spec'].get('t') == 1:
            pcs = [it for it in rec['spec']['items'] if it['t'] == 0x20]
            return [fd.incoming_pdu(fd.ac_spec([(it['id'], results[k % len(results)], it['ts'][0]['name'])
                                                for k, it in enumerate(pcs)], 16384))]
        if rec['kind'] == 'pdu' and rec['spec'].get('t') == 5:
            return [fd.incoming_pdu({'t': 6, 'r1': 0, 'r2': 0})]
        return []
    fac = fd.Factory([lambda d: setattr(d, 'responder', responder)])
    try:
        with fd.installed(fac):
            with ae.request_association({'aet': 'WARMUP', 'address': 'peer.example', 'port': 104}):
                pass
    except Exception:
        pass          # (a configuration that cannot be requested fails here too; judged at the checked request)


def expected_classes(config):
    """Distinct configured classes in first-configuration order, and the SCU service of each."""
    order, scu_service = [], {}
    current = sorted(TSS[i] for i in config['ts']) or None
    ts_of = {}
    for i, (role, classes) in enumerate(config['adds']):
        if role == 'request':
            continue
        if role == 'ts':
            current = sorted(TSS[c] for c in classes)
            continue
        if role == 'remove':
            order = [u for u in order if u not in {POOL[c] for c in classes}]
            continue
        for c in classes:
            u = POOL[c]
            if u not in order:
                order.append(u)
                ts_of[u] = current      # the syntaxes configured when the class was (first) configured
            if role == 'scu':
                scu_service[u] = i          # last add_scu wins (dict update)
    expected_classes.ts_of = ts_of
    return order, scu_service


def run_case(config, reply, remote):
    """reply: {'pattern': list of (result, ts choice index) per proposed context (cycled),
               'permute': bool, 'max': int}"""
    from pynetdicom2 import exceptions
    case = {'config': config, 'reply': reply, 'remote': remote}
    try:
        ae, services = build_ae(config)
    except Exception as exc:
        raise Violation('C11:configure:%s' % lib_frame(exc), 'configuring the entity raised %r' % (exc,), case)
    order, scu_service = expected_classes(config)
    sup_ts = [TSS[i] for i in config['ts']] or None
    state = {}

    def responder(dul, rec):
        if rec['kind'] == 'pdu' and rec['spec'].get('t') == 1:
            pcs = [it for it in rec['spec']['items'] if it['t'] == 0x20]
            answers = []
            for k, it in enumerate(pcs):
                result, choice = reply['pattern'][k % len(reply['pattern'])]
                tss = [t['name'] for t in it['ts']]
                ts = tss[choice % len(tss)] if tss and (result == 0 or reply.get('ts_on_reject')) else ''
                answers.append((it['id'], result, ts))
            state['answers'] = list(answers)
            if reply.get('permute'):
                answers = answers[1::2] + answers[0::2]
            return [fd.incoming_pdu(fd.ac_spec(answers, reply.get('max', 16384), rec['spec']['called'],
                                               rec['spec']['calling'], ver=reply.get('ver', 1),
                                               reserved=reply.get('reserved', 0)))]
        if rec['kind'] == 'pdu' and rec['spec'].get('t') == 5:
            return [fd.incoming_pdu({'t': 6, 'r1': 0, 'r2': 0})]
        return []

    def plan(dul):
        dul.responder = responder
    fac = fd.Factory([plan])
    too_many = len(order) > 128
    try:
        with fd.installed(fac):
            try:
                with ae.request_association(dict(remote)) as assoc:
                    dul = fac.instances[0]
                    check_established(case, config, order, scu_service, sup_ts, assoc, dul, state, remote)
            except Violation:
                raise
            except exceptions.NetDICOMError as exc:
                if not too_many:
                    raise Violation('C11:request-failed:%s' % lib_frame(exc),
                                    'request_association raised %r for %d classes' % (exc, len(order)), case)
                # more classes than one request can carry: a clean library error is the only acceptable outcome
                dul = fac.instances[0] if fac.instances else None
                if dul is not None and dul.sent_pdus(1):
                    raise Violation('C11:too-many:sent-anyway', 'an A-ASSOCIATE-RQ was handed to the provider although '
                                    '%d classes cannot be proposed' % len(order), case)
                return 'refused-cleanly'
            except Exception as exc:
                raise Violation('C11:exception:%s' % lib_frame(exc),
                                'request_association raised %r (%d distinct classes)' % (exc, len(order)), case)
            if too_many:
                raise Violation('C11:too-many:accepted', '%d distinct classes were "proposed" in one request'
                                % len(order), case)
    finally:
        if hasattr(ae, 'server_close'):
            ae.server_close()
    return 'established'


def check_established(case, config, order, scu_service, sup_ts, assoc, dul, state, remote):
    from pynetdicom2 import exceptions
    rqs = dul.sent_pdus(1)
    if len(rqs) != 1:
        raise Violation('C11:no-rq', '%d A-ASSOCIATE-RQ PDUs handed to the provider' % len(rqs), case)
    raw = rqs[0]['raw']
    rq = rqs[0]['spec']
    if rq.get('t') != 1:
        raise Violation('C11:rq-malformed', 'A-ASSOCIATE-RQ does not parse strictly: %r' % (rq,), case)
    if refpdu.ae_norm(rq['called']) != remote['aet'] or refpdu.ae_norm(rq['calling']) != config['aet']:
        raise Violation('C11:ae-titles', 'called/calling (%r, %r), expected (%r, %r)'
                        % (rq['called'], rq['calling'], remote['aet'], config['aet']), case)
    apps = [i['name'] for i in rq['items'] if i['t'] == 0x10]
    if apps != [APP]:
        raise Violation('C11:app-context', 'application context items %r' % (apps,), case)
    subs = [s for it in rq['items'] if it['t'] == 0x50 for s in it['subs']]
    maxl = [s['max'] for s in subs if s['t'] == 0x51]
    if maxl != [config['max']]:
        raise Violation('C11:max-length', 'Maximum Length sub-items %r, entity configured with %d' % (maxl, config['max']), case)
    pcs = [it for it in rq['items'] if it['t'] == 0x20]
    ids = [it['id'] for it in pcs]
    if len(set(ids)) != len(ids) or any(i % 2 == 0 or not 1 <= i <= 255 for i in ids):
        raise Violation('C11:context-ids', 'presentation context ids not distinct odd 1..255: %r' % (ids[:12],), case)
    proposed = [it['abs']['name'] for it in pcs]
    dup = sorted({u for u in proposed if proposed.count(u) > 1})
    if dup:
        raise Violation('C11:class-proposed-twice', 'SOP class proposed more than once: %r' % (dup[:3],), case)
    if sorted(proposed) != sorted(order):
        missing = [u for u in order if u not in proposed]
        extra = [u for u in proposed if u not in order]
        raise Violation('C11:classes', 'proposed classes differ from the configured ones: missing %r, extra %r'
                        % (missing[:3], extra[:3]), case)
    for it in pcs:
        want_ts = expected_classes.ts_of.get(it['abs']['name'])
        got = sorted(t['name'] for t in it['ts'])
        if want_ts is not None and got != want_ts:
            raise Violation('C11:transfer-syntaxes', 'context %d proposes %r, configured %r' % (it['id'], got, want_ts), case)
        if want_ts is None and len(got) != 3:
            raise Violation('C11:transfer-syntaxes', 'context %d proposes %r, expected the 3 default syntaxes'
                            % (it['id'], got), case)
    user = remote.get('username')
    ident = [s for s in subs if s['t'] == 0x58]
    if bool(user) != bool(ident) or (ident and ident[0]['prim'] != user):
        raise Violation('C11:user-identity', 'user identity sub-items %r for username %r' % (ident, user), case)
    # ---- after the reply
    by_id = {it['id']: it for it in pcs}
    want = {}
    for cid, result, ts in state['answers']:
        if result == 0:
            want[cid] = (by_id[cid]['abs']['name'], ts)
    got = {k: (str(v[1]), str(v[2])) for k, v in assoc.accepted_contexts.items()}
    if got != want:
        raise Violation('C11:accepted-contexts', 'accepted_contexts %r, peer accepted %r'
                        % (sorted(got.items())[:4], sorted(want.items())[:4]), case)
    got_dul = {k: (str(v[1]), str(v[2])) for k, v in dul.accepted_contexts.items()}
    if got_dul != want:
        raise Violation('C11:accepted-contexts-provider', 'provider table differs from the answer of the peer', case)
    usable = {}
    for cid, (u, ts) in want.items():
        usable[u] = (cid, ts)
    probe = list(order) + [POOL[199], '1.2.3.4.5.6.7.8.9']
    for u in probe:
        should = u in usable and u in scu_service
        try:
            fn = assoc.get_scu(u)
        except exceptions.ClassNotSupportedError:
            if should:
                raise Violation('C11:lookup:missing', 'get_scu(%s) failed although context %d was accepted'
                                % (u, usable[u][0]), case)
            continue
        except Exception as exc:
            raise Violation('C11:lookup:wrong-error:%s' % type(exc).__name__,
                            'get_scu(%s) raised %r instead of ClassNotSupportedError' % (u, exc), case)
        if not should:
            raise Violation('C11:lookup:phantom', 'get_scu(%s) returned a service although %s'
                            % (u, 'no context was accepted for it' if u in scu_service else 'it is not an SCU class'), case)
        tag, ctx, args = fn('x')
        if tag != scu_service[u] or (ctx[0], str(ctx[1]), str(ctx[2])) != (usable[u][0], u, usable[u][1]) or args != ('x',):
            raise Violation('C11:lookup:binding', 'get_scu(%s) bound to %r, expected service %d on context %r'
                            % (u, (tag, ctx), scu_service[u], usable[u]), case)
    # a class proposed (and accepted) only because the entity SERVES it gets its user-side service while the
    # association is already open: from then on a context exists AND a service exists, so the lookup succeeds
    late = [u for u in order if u in usable and u not in scu_service][:2]
    for k, u in enumerate(late):
        svc_late = make_service(9000 + 3 * k)
        assoc.ae.add_scu(svc_late, [u])
        try:
            tag, ctx, args = assoc.get_scu(u)('late')
        except Exception as exc:
            raise Violation('C11:lookup:late-service', 'add_scu for %s after the association was established: get_scu raised %r '
                            'although context %d was accepted' % (u, exc, usable[u][0]), case)
        if tag != 9000 + 3 * k or (ctx[0], str(ctx[2])) != usable[u]:
            raise Violation('C11:lookup:late-service', 'late add_scu for %s: bound to %r, expected context %r' % (u, (tag, ctx), usable[u]), case)


# ------------------------------------------------------------------------------------------

@st.composite
def configs(draw, big=False):
    kind = draw(st.sampled_from(['client', 'client', 'ae']))
    n_adds = draw(st.integers(1, 5))
    adds = []
    if big:
        # totals concentrated around the 128-class boundary
        total = draw(st.sampled_from([120, 126, 127, 128, 129, 130, 135, 160]))
        cuts = sorted(draw(st.lists(st.integers(1, total - 1), min_size=n_adds - 1, max_size=n_adds - 1)))
        bounds = [0] + cuts + [total]
        perm = draw(st.permutations(range(200)))
        for a, b in zip(bounds, bounds[1:]):
            role = 'scu' if kind == 'client' else draw(st.sampled_from(['scu', 'scp']))
            adds.append((role, list(perm[a:b])))
        if draw(st.booleans()) and adds[0][1]:
            adds.append(('scu', adds[0][1][:3]))          # overlap with an earlier call
        if draw(st.booleans()) and adds[-1][1]:
            adds[-1] = (adds[-1][0], adds[-1][1] + adds[-1][1][:2])     # a class repeated inside one call
    else:
        for _ in range(n_adds):
            role = 'scu' if kind == 'client' else draw(st.sampled_from(['scu', 'scp']))
            lst = draw(st.lists(st.integers(0, 12), min_size=0, max_size=6, unique=draw(st.booleans())))
            adds.append((role, lst))
    if draw(st.booleans()):
        pos = draw(st.integers(1, len(adds)))
        # an earlier association request in the entity's history, some of whose contexts the peer refused
        adds.insert(pos, ('request', draw(st.sampled_from([[], [3], [0, 3, 4], [4, 0], [1, 2, 3, 4]]))))
    if draw(st.integers(0, 3)) == 0 and not big:
        pos = draw(st.integers(1, len(adds)))
        configured = sorted({c for r, cl in adds[:pos] if r in ('scu', 'scp') for c in cl})
        if configured:
            adds.insert(pos, ('remove', draw(st.lists(st.sampled_from(configured), min_size=1, max_size=3, unique=True))))
    if draw(st.integers(0, 3)) == 0:
        pos = draw(st.integers(1, len(adds)))
        adds.insert(pos, ('ts', sorted(draw(st.sets(st.integers(0, 2), min_size=1)))))
    return {'kind': kind, 'ts': sorted(draw(st.sets(st.integers(0, 2)))), 'aet': draw(st.sampled_from(['CLI', 'A', 'LOCAL_AE_16CHARS'])),
            'max': draw(st.sampled_from([0, 7, 4096, 16384, 65536, 2 ** 32 - 1])), 'adds': adds}


replies = st.fixed_dictionaries({
    'pattern': st.lists(st.tuples(st.sampled_from([0, 0, 0, 1, 2, 3, 4]), st.integers(0, 2)), min_size=1, max_size=7),
    'permute': st.booleans(), 'max': st.sampled_from([0, 4096, 16384, 2 ** 32 - 1]),
    # PS3.8 9.3.3.2: the transfer syntax of a rejected context is not significant - a peer may fill it in
    'ts_on_reject': st.booleans(),
    # PS3.8 9.3.3: protocol-version is a bit mask, only bit 0 is tested; reserved fields are not tested
    'ver': st.sampled_from([1, 1, 3, 0x8001, 0xFFFF]), 'reserved': st.sampled_from([0, 0, 0x2A2A])})
remotes = st.fixed_dictionaries({'aet': st.sampled_from(['SRV', 'REMOTE', 'X' * 16]), 'address': st.just('peer.example'),
                                 'port': st.just(104)}).flatmap(
    lambda r: st.sampled_from([r, dict(r, username='user'), dict(r, username='user', password='secret')]))


def nontrivial(config, reply):
    results = {p[0] for p in reply['pattern']}
    return len([a for a in config['adds'] if a[0] in ('scu', 'scp')]) >= 2 and 0 in results and len(results) > 1


def run_random(ctx, n, big):
    def fn(value):
        config, reply, remote = value
        outcome = run_case(config, reply, remote)
        order, _ = expected_classes(config)
        ctx.case((config, reply, remote), nontrivial(config, reply),
                 labels=['big' if big else 'small', 'classes=%s' % ('>128' if len(order) > 128 else '120-128' if len(order) >= 120 else '<120'),
                         outcome], sample={'config': dict(config, adds=[(r, len(c)) for r, c in config['adds']]), 'reply': reply})
        if any(a[0] == 'request' for a in config['adds']):
            ctx.label('earlier-request-in-history')
        if any(a[0] == 'request' and set(a[1]) & {3, 4} for a in config['adds']):
            ctx.label('earlier-request-partly-refused')
        if any(a[0] == 'ts' for a in config['adds']):
            ctx.label('syntaxes-changed-between-adds')
        if any(a[0] == 'remove' for a in config['adds']):
            ctx.label('contexts-removed-between-adds')
    hyp_search(ctx, st.tuples(configs(big), replies, remotes), fn, n, name='C11-random')


def run_exhaustive_replies(ctx):
    """Proposals of <= 4 contexts: every pattern of result in {0..4} x choice among the proposed syntaxes."""
    remote = {'aet': 'SRV', 'address': 'peer.example', 'port': 104}
    for ncls in (1, 2, 3, 4):
        config = {'kind': 'client', 'ts': [0, 1], 'aet': 'CLI', 'max': 16384,
                  'adds': [('scu', list(range(ncls // 2 + ncls % 2))), ('scu', list(range(ncls // 2 + ncls % 2, ncls)))]}
        opts = [(r, c) for r in (0, 1, 2, 3, 4) for c in ((0, 1) if r == 0 else (0,))]
        for pattern in itertools.product(opts, repeat=ncls):
            for permute in (False, True):
                reply = {'pattern': list(pattern), 'permute': permute, 'max': 16384, 'ts_on_reject': permute,
                         'ver': (1, 3, 0xFFFF)[len(pattern) % 3] if permute else 1}
                cfg = config
                if permute:
                    # same classes, but the syntaxes are changed between the two calls and an earlier
                    # association was partly refused by its peer
                    cfg = dict(config, adds=[config['adds'][0], ('ts', [2]), ('request', [0, 3, 4]), config['adds'][1]])
                try:
                    run_case(cfg, reply, remote)
                except Violation as v:
                    ctx.fail(v.key, v.what, v.case)
                ctx.case(('ex', ncls, pattern, permute), nontrivial(cfg, reply), labels=['exhaustive-replies', 'n=%d' % ncls],
                         sample={'classes': ncls, 'pattern': pattern, 'permute': permute})


def shard(ctx, job):
    quiet_warnings()
    run_random(ctx, job['n'], job['big'])


def shared_remote_case(order):
    """One description of a peer (the `remote_ae` dict, with extra user-information sub-items of the application in
    'user_data') is used by two requesting entities of the process, configured with different maximum PDU lengths:
    every request carries ITS entity's maximum, once, and the application's dict is the application's."""
    from pynetdicom2 import applicationentity, userdataitems
    case = {'shared_remote': True, 'order': list(order)}
    extra = userdataitems.ImplementationVersionNameSubItem('APP_1_0')
    remote = {'aet': 'SRV', 'address': 'peer.example', 'port': 104, 'user_data': [extra]}

    def responder(dul, rec):
        if rec['kind'] == 'pdu':
            t = rec['spec'].get('t')
            if t == 1:
                pcs = [it for it in rec['spec']['items'] if it['t'] == 0x20]
                return [fd.incoming_pdu(fd.ac_spec([(it['id'], 0, it['ts'][0]['name']) for it in pcs], 32768))]
            if t == 5:
                return [fd.incoming_pdu({'t': 6, 'r1': 0, 'r2': 0})]
        return []
    for n, own in enumerate(order):
        ae = applicationentity.ClientAE('CLI%d' % n, [TSS[0]], own)
        ae.timeout = 0.01
        ae.add_scu(make_service(7), ['1.2.826.0.1.3680043.9.5000.77'])
        fac = fd.Factory([lambda d: setattr(d, 'responder', responder)])
        with fd.installed(fac):
            with ae.request_association(remote):
                pass
        rq = fac.instances[0].sent_pdus(1)[0]['spec']
        subs = [s_ for it in rq['items'] if it['t'] == 0x50 for s_ in it['subs']]
        maxes = [s_['max'] for s_ in subs if s_['t'] == 0x51]
        if maxes != [own]:
            raise Violation('C11:request:max-length', 'request %d made with a shared remote_ae description by an entity configured '
                            'with maximum PDU length %d carries Maximum Length sub-items %r' % (n + 1, own, maxes), case)
        if remote['user_data'] != [extra]:
            raise Violation('C11:request:remote-description-edited', 'after request %d the application\'s remote_ae[\'user_data\'] holds '
                            '%d items (it had 1)' % (n + 1, len(remote['user_data'])), case)


def run_builtin(ctx):
    """The library's own service objects: an SCP entity with storage_scp (139 classes) must configure, and
    requesting from it must either work within 1..255 or fail cleanly."""
    from pynetdicom2 import sopclass, applicationentity
    remote = {'aet': 'SRV', 'address': 'peer.example', 'port': 104}
    for name, build in (('client+verification+find', lambda: applicationentity.ClientAE('CLI').add_scu(sopclass.verification_scu).add_scu(sopclass.qr_find_scu)),
                        ('ae+storage_scp', lambda: fd.make_ae('SRV').add_scp(sopclass.storage_scp)),
                        ('ae+storage_scp+verification_scu', lambda: fd.make_ae('SRV').add_scp(sopclass.storage_scp).add_scu(sopclass.verification_scu))):
        case = {'builtin': name}
        try:
            ae = build()
        except Exception as exc:
            ctx.fail('C11:configure:%s' % lib_frame(exc), 'configuring %s raised %r' % (name, exc), case)
            continue
        ctx.case(('builtin', name), True, labels=['builtin-services'], sample=case)
        ae.timeout = 0.01
        n = len({str(c.sop_class) for c in ae.context_def_list.values()})

        def responder(dul, rec):
            if rec['kind'] == 'pdu' and rec['spec'].get('t') == 1:
                pcs = [it for it in rec['spec']['items'] if it['t'] == 0x20]
                return [fd.incoming_pdu(fd.ac_spec([(it['id'], 0, it['ts'][0]['name']) for it in pcs], 16384))]
            if rec['kind'] == 'pdu' and rec['spec'].get('t') == 5:
                return [fd.incoming_pdu({'t': 6, 'r1': 0, 'r2': 0})]
            return []
        fac = fd.Factory([lambda d: setattr(d, 'responder', responder)])
        from pynetdicom2 import exceptions
        try:
            with fd.installed(fac):
                try:
                    with ae.request_association(remote) as assoc:
                        rq = fac.instances[0].sent_pdus(1)[0]['spec']
                        ids = [it['id'] for it in rq['items'] if it['t'] == 0x20] if rq.get('t') == 1 else None
                        if ids is None or len(set(ids)) != len(ids) or any(i % 2 == 0 or not 1 <= i <= 255 for i in ids):
                            ctx.fail('C11:context-ids', '%s (%d classes): ids %r' % (name, n, ids and ids[:5]), case)
                except exceptions.NetDICOMError as exc:
                    if n <= 128:
                        ctx.fail('C11:request-failed:%s' % lib_frame(exc), '%s: %r' % (name, exc), case)
                except Exception as exc:
                    ctx.fail('C11:exception:%s' % lib_frame(exc), '%s (%d classes): request_association raised %r'
                             % (name, n, exc), case)
        finally:
            if hasattr(ae, 'server_close'):
                ae.server_close()


def run(ctx):
    quiet_warnings()
    for order in ((65536, 16384), (16384, 65536, 0), (0, 4096)):
        ctx.case(('shared-remote', order), True, labels=['shared-remote-description'], sample={'own maxima': order})
        ctx.check(shared_remote_case, order)
    ctx.rule = ('Hypothesis: sequences of 1-6 add_scu/add_scp calls on ClientAE/AE (never bound) with class lists '
                'from a pool of 200 synthetic UIDs, disjoint, overlapping across calls and repeated inside a call, optionally with an earlier association request between the calls (answered with any mix of result codes) with supported_ts changed between two calls and with entries deleted from context_def_list between two calls, small and with totals around and '
                'beyond 128; replies with every mix of result codes 0-4, syntax choices, in and out of proposal '
                'order; exhaustive reply patterns for proposals of 1-4 contexts; the own service objects of the library '
                '(storage_scp: 139 classes); non-trivial = >=2 add_* calls and a reply mixing accept and reject')
    ctx.assumptions = ['a configuration with more than 128 distinct classes cannot be proposed in one request: the '
                       'request must then fail with a library error before anything is handed to the provider',
                       'A-ASSOCIATE-RQ observed as bytes through the strict reference parser']
    run_exhaustive_replies(ctx)
    run_builtin(ctx)
    if ctx.thorough:
        parallel(ctx, shard, [{'n': 4000, 'big': i % 2 == 1} for i in range(16)])
    else:
        parallel(ctx, shard, [{'n': 80, 'big': i % 2 == 1} for i in range(8)])


def replay(case):
    quiet_warnings()
    if case.get('shared_remote'):
        shared_remote_case(tuple(case['order']))
        return
    if 'builtin' in case:
        from ..common import Ctx
        sub = Ctx('C11', 'quick', 1)
        run_builtin(sub)
        for key, ent in sorted(sub.failures.items()):
            raise Violation(key, ent['what'], ent['case'])
        return
    cfg = dict(case['config'])
    cfg['adds'] = [(r, list(c)) for r, c in cfg['adds']]
    rep = dict(case['reply'])
    rep['pattern'] = [tuple(p) for p in rep['pattern']]
    run_case(cfg, rep, case['remote'])
