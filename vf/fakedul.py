"""Engine D: primitive-level scripted peer for everything above the DUL (ACSE + service classes).

`installed()` replaces the provider class that `asceprovider.Association.__init__` instantiates
with FakeDUL (no thread, no socket).  Everything the library hands to the provider is serialised
with the library's encode() and re-read with the reference codecs, so oracles look at wire bytes.
Incoming DIMSE messages are reference-encoded command sets pushed through the library's own
DIMSEDecoder (whose correctness is C07's business), so services receive genuine message objects.
"""
from __future__ import annotations

import collections
import contextlib
import io
import types

from . import dimsegen as dg
from . import refcmd, refpdu, pdugen as g


class _NoMachine(object):
    """The `state_machine` ivar of the scripted provider: messages are handed over complete, so no message is ever
    half-received (`dimse_decoder` is None, as in the real machine between messages).  Anything else is not modelled."""
    dimse_decoder = None

    def __getattr__(self, name):
        if name.startswith('__'):
            raise AttributeError(name)
        from .common import HarnessError
        raise HarnessError('scripted provider\'s state_machine has no %r: it does not fit this tree' % (name,))


class FakeDUL(object):
    """Stands in for dulprovider.DULServiceProvider."""

    def __getattr__(self, name):
        # (a member of the real provider that the ACSE / service code of this tree uses and the scripted one lacks)
        if name.startswith('__'):
            raise AttributeError(name)
        from .common import HarnessError
        raise HarnessError('scripted provider has no %r: it does not fit this tree' % (name,))

    def __init__(self, store_in_file, get_file_cb, dul_socket=None, max_pdu_length=65536):
        self.store_in_file = store_in_file
        self.get_file_cb = get_file_cb
        self.dul_socket = dul_socket
        self.max_pdu_length = max_pdu_length
        self.accepted_contexts = {}
        self.state_machine = _NoMachine()
        self.sent = []
        self.inbox = collections.deque()
        self.responder = None
        self.killed = False
        self.stop_calls = 0
        self.receive_calls = 0
        self.timeouts = 0
        self.index = None
        self.log = []
        # lazy = the provider thread is slow: a queued message (generator) is encoded only when the
        # service user next blocks in receive() or stops the provider - a legal schedule of the real
        # provider, which pulls fragments from the generator in its own thread
        self.lazy = False
        self.pending = []

    # ---- provider interface used by asceprovider ----------------------------------------
    def send(self, primitive):
        if self.lazy:
            self.pending.append(primitive)
            return
        self._transmit(primitive)

    def _drain(self):
        while self.pending:
            self._transmit(self.pending.pop(0))

    def _transmit(self, primitive):
        if getattr(primitive, 'pdu_type', None) == 4:
            primitive = [primitive]         # (the real provider transmits a P-DATA-TF handed over as it is)
        if hasattr(primitive, 'pdu_type'):
            raw = primitive.encode()
            try:
                spec = refpdu.parse_pdu(raw)
            except refpdu.RefError as exc:
                spec = {'t': 'malformed', 'error': str(exc)}
            rec = {'kind': 'pdu', 'raw': raw, 'spec': spec, 'obj': primitive}
        else:
            pdus = list(primitive)
            raws = [p.encode() for p in pdus]
            frags = []
            ok = True
            for r in raws:
                try:
                    sp = refpdu.parse_pdu(r)
                    for v in sp['pdvs']:
                        frags.append((v['id'], v['data'][0] if v['data'] else None, v['data'][1:]))
                except (refpdu.RefError, KeyError):
                    ok = False
            cmd = b''.join(p for _, h, p in frags if h is not None and h & 1)
            data = b''.join(p for _, h, p in frags if h is not None and not h & 1)
            fields, defects = refcmd.wellformed(cmd)
            rec = {'kind': 'msg', 'raws': raws, 'frags': frags, 'cmd': cmd, 'fields': fields,
                   'defects': defects, 'data': data if any(h is not None and not h & 1 for _, h, _ in frags) else None,
                   'pc_ids': sorted({i for i, _, _ in frags}), 'ok': ok,
                   'pdu_lengths': [len(r) - 6 for r in raws]}
        self.sent.append(rec)
        self.log.append(('send', rec))
        if self.responder is not None:
            for reply in self.responder(self, rec) or []:
                self.inbox.append(reply)

    def receive(self, timeout):
        from pynetdicom2 import exceptions
        self.receive_calls += 1
        self._drain()
        while self.inbox:
            item = self.inbox.popleft()
            if callable(item):
                item = item()
                if item is None:
                    continue            # (a scripted side effect, nothing to deliver)
            self.log.append(('recv', item))
            return item
        self.timeouts += 1
        raise exceptions.DCMTimeoutError()

    def stop(self):
        self.stop_calls += 1
        self._drain()
        return True

    def kill(self):
        self._drain()
        self.killed = True

    # ---- helpers ----------------------------------------------------------------------------
    def push_pdu(self, spec):
        self.inbox.append(incoming_pdu(spec))

    def push_msg(self, fields, data, pc_id, lazy=True):
        """Queue a DIMSE message; decoded lazily at receive() time so that accepted_contexts set
        during negotiation are used, exactly as in production."""
        if lazy:
            self.inbox.append(lambda: incoming_msg(self, fields, data, pc_id))
        else:
            self.inbox.append(incoming_msg(self, fields, data, pc_id))

    def sent_pdus(self, t=None):
        return [r for r in self.sent if r['kind'] == 'pdu' and (t is None or r['spec'].get('t') == t)]

    def sent_msgs(self):
        return [r for r in self.sent if r['kind'] == 'msg']


def incoming_pdu(spec):
    return g.pdu_class(spec['t']).decode(refpdu.enc_pdu(spec))


def incoming_msg(dul, fields, data, pc_id, max_pdu=16384):
    """(message, pc_id) as the provider would deliver it: reference-encoded, decoded by the library."""
    from pynetdicom2 import fsm, pdu
    f = dict(fields)
    f.setdefault(0x0800, 0x0001 if data else refcmd.NO_DATASET)
    cmd = refcmd.encode(f)
    frags = dg.ref_fragments(cmd, data, max_pdu, pc_id)
    try:
        dec = fsm.DIMSEDecoder(dul.accepted_contexts, dul.store_in_file, dul.get_file_cb)
    except TypeError:
        # the reassembler is not constructed like that in this tree (an internal interface, free to change): take
        # the message from the real provider instead
        return _incoming_via_provider(dul, frags)
    for fr in frags:
        dec.process(pdu.PDataTfPDU.decode(refpdu.enc_pdu({'t': 4, 'r': 0, 'pdvs': [fr]})))
    if dec.receiving:
        raise RuntimeError('reference message did not complete')
    return dec.msg, dec.pc_id


def _incoming_via_provider(dul, frags):
    """The same message as the real provider loop indicates it (vf/simnet.py, acceptor in Sta6 with the contexts of
    this association)."""
    from . import simnet, convs
    from .common import HarnessError
    script = [{'k': 'seg', 'data': refpdu.enc_pdu(convs.RQ_SPEC), 'eager': False},
              {'k': 'user', 'prim': convs.user_prim({'pdu': convs.AC_SPEC})}]
    script += [{'k': 'seg', 'data': refpdu.enc_pdu({'t': 4, 'r': 0, 'pdvs': [fr]}), 'eager': True} for fr in frags]
    sim = simnet.run_scenario('acceptor', script, store_in_file=dul.store_in_file, get_file_cb=dul.get_file_cb,
                              accepted_contexts=dul.accepted_contexts, budget=40000 + 20 * len(script))
    inds = [i for i in sim.indications() if isinstance(i, tuple)]
    if len(inds) != 1:
        aborted = [i for i in sim.indications() if getattr(i, 'pdu_type', None) == 7]
        if aborted:
            return aborted[0]          # the provider could not take the message: it indicates an abort
        raise HarnessError('reference message produced %d indications through the provider (%r)' % (len(inds), sim.outcome[:1]))
    return inds[0]


class Factory(object):
    """Hands out FakeDUL instances in creation order; plan[i] configures the i-th instance."""

    def __init__(self, plan=None, lazy=False):
        self.instances = []
        self.plan = plan or []
        self.lazy = lazy

    def __call__(self, store_in_file, get_file_cb, dul_socket=None, max_pdu_length=65536):
        d = FakeDUL(store_in_file, get_file_cb, dul_socket, max_pdu_length)
        d.index = len(self.instances)
        d.lazy = self.lazy
        self.instances.append(d)
        if d.index < len(self.plan) and self.plan[d.index] is not None:
            self.plan[d.index](d)
        return d


@contextlib.contextmanager
def installed(factory):
    from pynetdicom2 import asceprovider
    saved = asceprovider.dulprovider
    saved_time = asceprovider.time
    asceprovider.dulprovider = types.SimpleNamespace(DULServiceProvider=factory)
    asceprovider.time = types.SimpleNamespace(sleep=lambda dt: None, time=lambda: 0.0)
    try:
        yield factory
    finally:
        asceprovider.dulprovider = saved
        asceprovider.time = saved_time


class FakeRequest(object):
    """Socket-like object for socketserver.StreamRequestHandler.setup()/finish()."""

    def makefile(self, mode='rb', bufsize=-1):
        return io.BytesIO()

    def settimeout(self, t):
        pass

    def setsockopt(self, *a):
        pass

    def sendall(self, data):
        pass

    def close(self):
        pass

    def fileno(self):
        return -1

    def __bool__(self):
        return True


def run_acceptor(ae, factory_plan, max_pdu_length=None, lazy=False):
    """Run AssociationAcceptor.handle() to completion on a FakeDUL prepared by factory_plan[0].
    Returns (acceptor or None, factory, exception or None)."""
    from pynetdicom2 import asceprovider
    fac = Factory(factory_plan, lazy)
    exc = None
    acc = None
    with installed(fac):
        try:
            if max_pdu_length is None and hasattr(ae, 'RequestHandlerClass'):
                # exactly what the entity's own server does for an incoming connection
                acc = ae.RequestHandlerClass(FakeRequest(), ('127.0.0.1', 40000), ae)
            else:
                acc = asceprovider.AssociationAcceptor(FakeRequest(), ('127.0.0.1', 40000), ae,
                                                       max_pdu_length if max_pdu_length is not None
                                                       else ae.max_pdu_length)
        except BaseException as e:      # noqa - surfaced to the caller
            from .common import HarnessError, harness_fault
            if isinstance(e, HarnessError):
                raise
            if harness_fault(e):
                raise HarnessError('the scripted provider does not fit this tree: %r' % (e,))
            exc = e
    return acc, fac, exc


def make_ae(title='SRV', supported_ts=None, max_pdu_length=65536, cls=None, **kw):
    """An applicationentity.AE that never binds a port (the listening socket is closed at once)."""
    from pynetdicom2 import applicationentity
    cls = cls or applicationentity.AE
    ae = cls(title, 0, supported_ts, max_pdu_length, bind_and_activate=False, **kw) \
        if cls is applicationentity.AE or issubclass(cls, applicationentity.AE) else cls(title, supported_ts, max_pdu_length)
    try:
        ae.socket.close()
    except Exception:
        pass
    ae.timeout = 0.01
    return ae


def rq_spec(contexts, max_len=16384, called='SRV', calling='CLI', app='1.2.840.10008.3.1.1.1', extra_subs=(), ver=1,
            reserved=0):
    """A-ASSOCIATE-RQ spec: contexts = [(id, abstract, [ts..])].  `reserved` fills EVERY reserved field, of the
    PDU and of its items and sub-items (receivers shall not test them)."""
    rb = reserved & 0xFF
    items = [{'t': 0x10, 'r': rb, 'name': app}]
    for cid, abs_, tss in contexts:
        items.append({'t': 0x20, 'r1': rb, 'id': cid, 'r2': rb, 'r3': rb, 'r4': rb,
                      'abs': {'r': rb, 'name': abs_}, 'ts': [{'r': rb, 'name': t} for t in tss]})
    items.append({'t': 0x50, 'r': rb, 'subs': [{'t': 0x51, 'r': rb, 'max': max_len}] + list(extra_subs)})
    return {'t': 1, 'r1': reserved & 0xFF, 'ver': ver, 'r2': reserved & 0xFFFF, 'called': called, 'calling': calling,
            'r3': [reserved] * 8, 'items': items}


def ac_spec(answers, max_len=16384, called='SRV', calling='CLI', app='1.2.840.10008.3.1.1.1', extra_subs=(), ver=1,
            reserved=0):
    """A-ASSOCIATE-AC spec: answers = [(id, result, ts)].  `reserved` fills every reserved field, nested ones too."""
    rb = reserved & 0xFF
    items = [{'t': 0x10, 'r': rb, 'name': app}]
    for cid, res, ts in answers:
        items.append({'t': 0x21, 'r1': rb, 'id': cid, 'r2': rb, 'result': res, 'r3': rb, 'ts': {'r': rb, 'name': ts}})
    subs = ([{'t': 0x51, 'r': rb, 'max': max_len}] if max_len is not None else []) + list(extra_subs)
    items.append({'t': 0x50, 'r': rb, 'subs': subs})
    return {'t': 2, 'r1': reserved & 0xFF, 'ver': ver, 'r2': reserved & 0xFFFF, 'called': called, 'calling': calling,
            'r3': [reserved] * 8, 'items': items}
