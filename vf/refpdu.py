"""Engine A: independent reference codec for DICOM upper-layer PDUs.

Transcribed from PS3.8 section 9.3 (PDU structures, Tables 9-11 .. 9-26) and PS3.7 Annex D
(user information sub-items 51H-59H).  Nothing in here is derived from pynetdicom2.

Values are plain data ("specs"):

 A-ASSOCIATE-RQ/AC {'t':1|2,'r1','ver','r2','called','calling','r3':[8 ints],'items':[..]}
   item 10H {'t':0x10,'r','name'}
   item 20H {'t':0x20,'r1','id','r2','r3','r4','abs':{'r','name'},'ts':[{'r','name'},..]}
   item 21H {'t':0x21,'r1','id','r2','result','r3','ts':{'r','name'}}
   item 50H {'t':0x50,'r','subs':[..]}
     51H {'t','r','max'}            52H {'t','r','uid'}         53H {'t','r','inv','perf'}
     54H {'t','r','uid','scu','scp'} 55H {'t','r','name'}        56H {'t','r','uid','info':bytes}
     58H {'t','r','type','rsp','prim','sec'}   59H {'t','r','resp'}
     anything else {'t','r','data':bytes}  (opaque; includes 57H)
 A-ASSOCIATE-RJ    {'t':3,'r1','r2','result','source','reason'}
 P-DATA-TF         {'t':4,'r','pdvs':[{'id','data':bytes},..]}   data includes the control header
 A-RELEASE-RQ/RP   {'t':5|6,'r1','r2'}
 A-ABORT           {'t':7,'r1','r2','r3','source','reason'}

parse() is strict about extents: every element is parsed inside exactly the slice its length
field delimits; under-run, over-run and left-over bytes are errors.  Each parsed dict carries
'_n' = number of bytes the element occupied (header included).
"""
from __future__ import annotations

import struct


class RefError(Exception):
    pass


TEXT_SUBS = {0x52: 'uid', 0x55: 'name'}


def _txt(s):
    return s.encode('utf-8') if isinstance(s, str) else bytes(s)


# ------------------------------------------------------------------------------------------
# encoder

def _item(t, r, body):
    if len(body) > 0xFFFF:
        raise RefError('item body too long')
    return struct.pack('>BBH', t, r, len(body)) + body


def enc_sub(s):
    t = s['t']
    r = s.get('r', 0)
    if t == 0x51 and 'max' in s:
        return _item(t, r, struct.pack('>I', s['max']))
    if t == 0x52 and 'uid' in s:
        return _item(t, r, _txt(s['uid']))
    if t == 0x53 and 'inv' in s:
        return _item(t, r, struct.pack('>HH', s['inv'], s['perf']))
    if t == 0x54 and 'uid' in s:
        u = _txt(s['uid'])
        return _item(t, r, struct.pack('>H', len(u)) + u + struct.pack('BB', s['scu'], s['scp']))
    if t == 0x55 and 'name' in s:
        return _item(t, r, _txt(s['name']))
    if t == 0x56 and 'uid' in s:
        u = _txt(s['uid'])
        return _item(t, r, struct.pack('>H', len(u)) + u + bytes(s['info']))
    if t == 0x58 and 'prim' in s:
        p, q = _txt(s['prim']), _txt(s['sec'])
        return _item(t, r, struct.pack('>BBH', s['type'], s['rsp'], len(p)) + p +
                     struct.pack('>H', len(q)) + q)
    if t == 0x59 and 'resp' in s:
        p = _txt(s['resp'])
        return _item(t, r, struct.pack('>H', len(p)) + p)
    return _item(t, r, bytes(s['data']))


def enc_item(it):
    t = it['t']
    if t == 0x10:
        return _item(t, it.get('r', 0), _txt(it['name']))
    if t == 0x20:
        body = struct.pack('BBBB', it['id'], it.get('r2', 0), it.get('r3', 0), it.get('r4', 0))
        body += _item(0x30, it['abs'].get('r', 0), _txt(it['abs']['name']))
        for ts in it['ts']:
            body += _item(0x40, ts.get('r', 0), _txt(ts['name']))
        return _item(t, it.get('r1', 0), body)
    if t == 0x21:
        body = struct.pack('BBBB', it['id'], it.get('r2', 0), it['result'], it.get('r3', 0))
        body += _item(0x40, it['ts'].get('r', 0), _txt(it['ts']['name']))
        return _item(t, it.get('r1', 0), body)
    if t == 0x50:
        return _item(t, it.get('r', 0), b''.join(enc_sub(s) for s in it['subs']))
    raise RefError('unknown item type %r' % (t,))


def _ae(title, pad):
    b = _txt(title)
    if len(b) > 16:
        raise RefError('AE title too long')
    return b + pad * (16 - len(b))


def enc_pdu(p, pad=b' '):
    t = p['t']
    if t in (1, 2):
        body = struct.pack('>HH', p.get('ver', 1), p.get('r2', 0))
        body += _ae(p['called'], pad) + _ae(p['calling'], pad)
        body += struct.pack('>8I', *p.get('r3', [0] * 8))
        body += b''.join(enc_item(i) for i in p['items'])
        return struct.pack('>BBI', t, p.get('r1', 0), len(body)) + body
    if t == 3:
        return struct.pack('>BBIBBBB', 3, p.get('r1', 0), 4, p.get('r2', 0), p['result'],
                           p['source'], p['reason'])
    if t == 4:
        body = b''.join(struct.pack('>IB', len(v['data']) + 1, v['id']) + bytes(v['data'])
                        for v in p['pdvs'])
        return struct.pack('>BBI', 4, p.get('r', 0), len(body)) + body
    if t in (5, 6):
        return struct.pack('>BBII', t, p.get('r1', 0), 4, p.get('r2', 0))
    if t == 7:
        return struct.pack('>BBIBBBB', 7, p.get('r1', 0), 4, p.get('r2', 0), p.get('r3', 0),
                           p['source'], p['reason'])
    raise RefError('unknown PDU type %r' % (t,))


# ------------------------------------------------------------------------------------------
# strict parser

class _Cur(object):
    def __init__(self, data, what):
        self.d = data
        self.p = 0
        self.what = what

    def take(self, n):
        if n < 0 or self.p + n > len(self.d):
            raise RefError('%s: need %d bytes at offset %d, only %d left'
                           % (self.what, n, self.p, len(self.d) - self.p))
        b = self.d[self.p:self.p + n]
        self.p += n
        return b

    def rest(self):
        b = self.d[self.p:]
        self.p = len(self.d)
        return b

    def left(self):
        return len(self.d) - self.p

    def done(self):
        if self.p != len(self.d):
            raise RefError('%s: %d left-over bytes' % (self.what, len(self.d) - self.p))


def _dec(b, what):
    try:
        return b.decode('utf-8')
    except UnicodeDecodeError:
        raise RefError('%s: not UTF-8 text' % what)


def _items(cur):
    """Yield (type, reserved, body) for consecutive items filling cur exactly."""
    while cur.left():
        t, r, n = struct.unpack('>BBH', cur.take(4))
        yield t, r, cur.take(n)


def parse_sub(t, r, body):
    c = _Cur(body, 'sub-item %02XH' % t)
    n = 4 + len(body)
    if t == 0x51:
        out = {'t': t, 'r': r, 'max': struct.unpack('>I', c.take(4))[0]}
    elif t == 0x52:
        out = {'t': t, 'r': r, 'uid': _dec(c.rest(), 'impl class uid')}
    elif t == 0x53:
        inv, perf = struct.unpack('>HH', c.take(4))
        out = {'t': t, 'r': r, 'inv': inv, 'perf': perf}
    elif t == 0x54:
        ul = struct.unpack('>H', c.take(2))[0]
        u = _dec(c.take(ul), 'role uid')
        scu, scp = struct.unpack('BB', c.take(2))
        out = {'t': t, 'r': r, 'uid': u, 'scu': scu, 'scp': scp}
    elif t == 0x55:
        out = {'t': t, 'r': r, 'name': _dec(c.rest(), 'impl version name')}
    elif t == 0x56:
        ul = struct.unpack('>H', c.take(2))[0]
        u = _dec(c.take(ul), 'ext neg uid')
        out = {'t': t, 'r': r, 'uid': u, 'info': c.rest()}
    elif t == 0x58:
        typ, rsp, pl = struct.unpack('>BBH', c.take(4))
        prim = c.take(pl)
        sl = struct.unpack('>H', c.take(2))[0]
        sec = c.take(sl)
        out = {'t': t, 'r': r, 'type': typ, 'rsp': rsp, 'prim': _dec(prim, 'primary field'),
               'sec': _dec(sec, 'secondary field')}
    elif t == 0x59:
        rl = struct.unpack('>H', c.take(2))[0]
        out = {'t': t, 'r': r, 'resp': _dec(c.take(rl), 'server response')}
    else:
        out = {'t': t, 'r': r, 'data': c.rest()}
    c.done()
    out['_n'] = n
    return out


def parse_item(t, r, body):
    c = _Cur(body, 'item %02XH' % t)
    n = 4 + len(body)
    if t == 0x10:
        out = {'t': t, 'r': r, 'name': _dec(c.rest(), 'application context')}
    elif t == 0x20:
        cid, r2, r3, r4 = struct.unpack('BBBB', c.take(4))
        abs_ = None
        ts = []
        for st, sr, sb in _items(c):
            if st == 0x30 and abs_ is None and not ts:
                abs_ = {'r': sr, 'name': _dec(sb, 'abstract syntax'), '_n': 4 + len(sb)}
            elif st == 0x40 and abs_ is not None:
                ts.append({'r': sr, 'name': _dec(sb, 'transfer syntax'), '_n': 4 + len(sb)})
            else:
                raise RefError('item 20H: unexpected sub-item %02XH' % st)
        if abs_ is None:
            raise RefError('item 20H: no abstract syntax')
        out = {'t': t, 'r1': r, 'id': cid, 'r2': r2, 'r3': r3, 'r4': r4, 'abs': abs_, 'ts': ts}
    elif t == 0x21:
        cid, r2, res, r3 = struct.unpack('BBBB', c.take(4))
        subs = list(_items(c))
        if len(subs) != 1 or subs[0][0] != 0x40:
            raise RefError('item 21H: expected exactly one transfer syntax sub-item')
        st, sr, sb = subs[0]
        out = {'t': t, 'r1': r, 'id': cid, 'r2': r2, 'result': res, 'r3': r3,
               'ts': {'r': sr, 'name': _dec(sb, 'transfer syntax'), '_n': 4 + len(sb)}}
    elif t == 0x50:
        out = {'t': t, 'r': r, 'subs': [parse_sub(st, sr, sb) for st, sr, sb in _items(c)]}
    else:
        raise RefError('unknown variable item type %02XH' % t)
    c.done()
    out['_n'] = n
    return out


def parse_pdu(data):
    """Parse exactly one PDU occupying all of `data`."""
    data = bytes(data)
    if len(data) < 6:
        raise RefError('PDU shorter than its 6-byte header')
    t, r, n = struct.unpack('>BBI', data[:6])
    if 6 + n != len(data):
        raise RefError('PDU length field %d but %d bytes follow the header' % (n, len(data) - 6))
    c = _Cur(data[6:], 'PDU %02XH' % t)
    if t in (1, 2):
        ver, r2 = struct.unpack('>HH', c.take(4))
        called = c.take(16)
        calling = c.take(16)
        r3 = list(struct.unpack('>8I', c.take(32)))
        items = [parse_item(it, ir, ib) for it, ir, ib in _items(c)]
        out = {'t': t, 'r1': r, 'ver': ver, 'r2': r2, 'called': _dec(called, 'called AE'),
               'calling': _dec(calling, 'calling AE'), 'r3': r3, 'items': items}
    elif t == 3:
        r2, res, src, rea = struct.unpack('BBBB', c.take(4))
        out = {'t': 3, 'r1': r, 'r2': r2, 'result': res, 'source': src, 'reason': rea}
    elif t == 4:
        pdvs = []
        while c.left():
            ln, cid = struct.unpack('>IB', c.take(5))
            if ln < 1:
                raise RefError('PDV item length %d < 1' % ln)
            pdvs.append({'id': cid, 'data': c.take(ln - 1), '_n': 4 + ln})
        out = {'t': 4, 'r': r, 'pdvs': pdvs}
    elif t in (5, 6):
        out = {'t': t, 'r1': r, 'r2': struct.unpack('>I', c.take(4))[0]}
    elif t == 7:
        r2, r3, src, rea = struct.unpack('BBBB', c.take(4))
        out = {'t': 7, 'r1': r, 'r2': r2, 'r3': r3, 'source': src, 'reason': rea}
    else:
        raise RefError('unknown PDU type %02XH' % t)
    c.done()
    out['_n'] = len(data)
    return out


def split_stream(data):
    """Split a byte stream into complete PDU frames; returns (frames, trailing_bytes)."""
    data = bytes(data)
    out = []
    p = 0
    while len(data) - p >= 6:
        n = struct.unpack('>I', data[p + 2:p + 6])[0]
        if p + 6 + n > len(data):
            break
        out.append(data[p:p + 6 + n])
        p += 6 + n
    return out, data[p:]


def parse_stream(data):
    frames, rest = split_stream(data)
    if rest:
        raise RefError('%d trailing bytes do not form a PDU' % len(rest))
    return [parse_pdu(f) for f in frames]


def strip_n(x):
    """Copy of a parsed value without the '_n' extent annotations."""
    if isinstance(x, dict):
        return {k: strip_n(v) for k, v in x.items() if k != '_n'}
    if isinstance(x, list):
        return [strip_n(v) for v in x]
    return x


def ae_norm(s):
    return s.strip(' \0')


def self_test():
    """encode/parse identity on hand-written values covering every structure."""
    rq = {'t': 1, 'r1': 0, 'ver': 1, 'r2': 0, 'called': 'SRV', 'calling': 'CLI', 'r3': [0] * 8,
          'items': [
              {'t': 0x10, 'r': 0, 'name': '1.2.840.10008.3.1.1.1'},
              {'t': 0x20, 'r1': 0, 'id': 1, 'r2': 0, 'r3': 0, 'r4': 0,
               'abs': {'r': 0, 'name': '1.2.840.10008.1.1'},
               'ts': [{'r': 0, 'name': '1.2.840.10008.1.2'}, {'r': 0, 'name': '1.2.840.10008.1.2.1'}]},
              {'t': 0x50, 'r': 0, 'subs': [
                  {'t': 0x51, 'r': 0, 'max': 16384}, {'t': 0x52, 'r': 0, 'uid': '1.2.3'},
                  {'t': 0x53, 'r': 0, 'inv': 1, 'perf': 2},
                  {'t': 0x54, 'r': 0, 'uid': '1.2', 'scu': 1, 'scp': 0},
                  {'t': 0x55, 'r': 0, 'name': 'V1'}, {'t': 0x56, 'r': 0, 'uid': '1.2.3', 'info': b'\1\2'},
                  {'t': 0x57, 'r': 0, 'data': b'\0\3abc'},
                  {'t': 0x58, 'r': 0, 'type': 2, 'rsp': 1, 'prim': 'u', 'sec': 'p'},
                  {'t': 0x59, 'r': 0, 'resp': 'ok'}]}]}
    ac = {'t': 2, 'r1': 0, 'ver': 1, 'r2': 0, 'called': 'SRV', 'calling': 'CLI', 'r3': [0] * 8,
          'items': [{'t': 0x21, 'r1': 0, 'id': 1, 'r2': 0, 'result': 0, 'r3': 0,
                     'ts': {'r': 0, 'name': '1.2.840.10008.1.2'}}]}
    others = [{'t': 3, 'r1': 0, 'r2': 0, 'result': 1, 'source': 2, 'reason': 3},
              {'t': 4, 'r': 0, 'pdvs': [{'id': 1, 'data': b'\3abc'}, {'id': 3, 'data': b'\2'}]},
              {'t': 5, 'r1': 0, 'r2': 0}, {'t': 6, 'r1': 0, 'r2': 7},
              {'t': 7, 'r1': 0, 'r2': 0, 'r3': 0, 'source': 2, 'reason': 1}]
    for spec in [rq, ac] + others:
        b = enc_pdu(spec)
        back = strip_n(parse_pdu(b))
        for k in ('called', 'calling'):
            if k in back:
                back[k] = ae_norm(back[k])
        if back != spec:
            raise RefError('reference codec self-test failed for PDU type %d' % spec['t'])
        if parse_pdu(b)['_n'] != len(b):
            raise RefError('reference extent self-test failed')
    # known-good bytes from PS3.8: A-RELEASE-RQ and A-ABORT
    if enc_pdu({'t': 5}) != b'\x05\x00\x00\x00\x00\x04\x00\x00\x00\x00':
        raise RefError('A-RELEASE-RQ layout')
    if enc_pdu({'t': 7, 'source': 2, 'reason': 1}) != b'\x07\x00\x00\x00\x00\x04\x00\x00\x02\x01':
        raise RefError('A-ABORT layout')
    for bad in (b'\x05\x00\x00\x00\x00\x04\x00\x00\x00', b'\x05\x00\x00\x00\x00\x05\x00\x00\x00\x00\x00',
                enc_pdu(rq)[:-1], b'\x04\x00\x00\x00\x00\x05\x00\x00\x00\x02\x01'):
        try:
            parse_pdu(bad)
        except RefError:
            continue
        raise RefError('reference parser accepted a malformed PDU')
    return True
