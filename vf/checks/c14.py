"""C14 - rejection, abort and release are reported faithfully to both sides."""
from __future__ import annotations

import itertools
import warnings

from hypothesis import strategies as st

from .. import fakedul as fd, refcmd, svc
from ..common import Violation, HarnessError, hyp_search, parallel, lib_frame, quiet_warnings

LEVEL = 'exploration'
PROP = 'C14'
REMOTE = {'aet': 'SRV', 'address': 'peer.example', 'port': 104}

# PS3.8 9.3.4: result 1-2; source 1 (user) reasons 1,2,3,7; source 2 (ACSE) 1,2; source 3 (presentation) 0,1,2
STANDARD_RJ = [(r, 1, d) for r in (1, 2) for d in (1, 2, 3, 7)] + [(r, 2, d) for r in (1, 2) for d in (1, 2)] + \
              [(r, 3, d) for r in (1, 2) for d in (0, 1, 2)]
STANDARD_ABORT = [(0, 0)] + [(2, d) for d in (0, 1, 2, 4, 5, 6)]
byte = st.integers(0, 255)


class Boom(Exception):
    pass


class Interrupt(BaseException):
    """What KeyboardInterrupt, SystemExit and GeneratorExit are: not an Exception, still a way out of a with-block."""


# ---- acceptor refuses ------------------------------------------------------------------------------
def acceptor_reject(triple, messages_after=1):
    from pynetdicom2 import exceptions, sopclass
    result, source, diag = triple
    case = {'kind': 'acceptor-reject', 'triple': list(triple)}
    calls = []

    def svc_fn(asce, ctx, msg):
        calls.append(type(msg).__name__)
    svc_fn.sop_classes = [svc.VERIFICATION]

    how = (result + 2 * source + 3 * diag) % 3

    def on_rq(asce, assoc):
        # what counts is what the error object CARRIES when it is raised, however it came to carry it
        if how == 1:
            err = exceptions.AssociationRejectedError((result + 1) % 256, (source + 1) % 256, (diag + 1) % 256)
            err.result, err.source, err.diagnostic = result, source, diag       # refined after construction
            raise err
        if how == 2:
            class PolicyRefusal(exceptions.AssociationRejectedError):
                def __init__(self):
                    exceptions.AssociationRejectedError.__init__(self, 1, 1, 1)
                    self.result, self.source, self.diagnostic = result, source, diag
            raise PolicyRefusal()
        raise exceptions.AssociationRejectedError(result, source, diag)
    ae = svc.make_server({'on_association_request': on_rq}, [svc_fn])
    msgs = [({0x0002: svc.VERIFICATION, 0x0100: 0x0030, 0x0110: 1}, None, 1)] * messages_after
    try:
        acc, fac, exc = fd.run_acceptor(ae, [svc.primary_plan([(1, svc.VERIFICATION)], msgs)])
    finally:
        ae.server_close()
    dul = fac.instances[0]
    kinds = [r['spec'].get('t') for r in dul.sent_pdus()]
    if kinds != [3]:
        raise Violation('%s:reject:pdus' % PROP, 'refusing application: PDUs handed to the provider %r, expected one A-ASSOCIATE-RJ'
                        % (kinds,), case)
    rj = dul.sent_pdus(3)[0]['spec']
    if (rj['result'], rj['source'], rj['reason']) != tuple(triple):
        raise Violation('%s:reject:fields' % PROP, 'A-ASSOCIATE-RJ carries (%d,%d,%d), application gave %r'
                        % (rj['result'], rj['source'], rj['reason'], tuple(triple)), case)
    if calls or dul.sent_msgs():
        raise Violation('%s:reject:service-ran' % PROP, 'service invoked %r / %d messages sent on a refused association'
                        % (calls, len(dul.sent_msgs())), case)
    if exc is not None and not isinstance(exc, exceptions.AssociationRejectedError):
        raise Violation('%s:reject:exception:%s' % (PROP, lib_frame(exc)), 'acceptor raised %r' % (exc,), case)
    if not dul.killed:
        raise Violation('%s:reject:not-ended' % PROP, 'provider not stopped after the refusal', case)


# ---- one long-lived serving entity ---------------------------------------------------------------------
def expand_program(program):
    seq = []
    for kind, count, triple in program:
        seq += [(kind, tuple(triple))] * count
    return seq


def acceptor_long_lived(program):
    """ONE entity answers a long series of associations, one after the other: refused by the application with a
    triple, served and released, aborted by the peer.  Every one of them ends as if it were the entity's first."""
    from pynetdicom2 import exceptions, sopclass
    case = {'kind': 'acceptor-long-lived', 'program': [[k, c, list(t)] for k, c, t in program]}
    cur = {}

    def on_rq(asce, assoc):
        if cur['kind'] == 'rj':
            raise exceptions.AssociationRejectedError(*cur['triple'])
    ae = svc.make_server({'on_association_request': on_rq}, [sopclass.verification_scp])
    seq = expand_program(program)
    try:
        for n, (kind, triple) in enumerate(seq):
            cur.update(kind=kind, triple=triple)
            msgs = [({0x0002: svc.VERIFICATION, 0x0100: 0x0030, 0x0110: 7}, None, 1)]
            if kind == 'abort':
                msgs.append({'pdu': {'t': 7, 'r1': 0, 'r2': 0, 'r3': 0, 'source': 0, 'reason': 0}})
            else:
                msgs.append('release')
            acc, fac, exc = fd.run_acceptor(ae, [svc.primary_plan([(1, svc.VERIFICATION)], msgs)])
            dul = fac.instances[0]
            kinds = [r['spec'].get('t') for r in dul.sent_pdus()]
            where = 'association %d of %d on one entity (%d refused by the application before it)' % (
                n + 1, len(seq), sum(1 for k, _ in seq[:n] if k == 'rj'))
            if kind == 'rj':
                got = [(r['spec']['result'], r['spec']['source'], r['spec']['reason']) for r in dul.sent_pdus(3)]
                if kinds != [3] or got != [tuple(triple)]:
                    raise Violation('%s:long-lived:reject' % PROP, '%s: the application refused with %r, PDUs sent %r, '
                                    'A-ASSOCIATE-RJ fields %r' % (where, tuple(triple), kinds, got), case)
            else:
                want = [2, 6] if kind == 'serve' else [2]
                served = [r['fields'].get(0x0120) for r in dul.sent_msgs()]
                if kinds != want or served != [7]:
                    raise Violation('%s:long-lived:serve' % PROP, '%s: the application accepts it; PDUs sent %r (expected %r), '
                                    'requests answered %r' % (where, kinds, want, served), case)
            if not dul.killed:
                raise Violation('%s:long-lived:not-ended' % PROP, '%s: provider not stopped' % where, case)
    finally:
        ae.server_close()


# ---- requester: scripted peer ------------------------------------------------------------------------
def make_client():
    from pynetdicom2 import applicationentity, sopclass
    ae = applicationentity.ClientAE('CLI', [svc.IMPLICIT])
    ae.timeout = 0.01
    ae.add_scu(sopclass.verification_scu).add_scu(sopclass.qr_find_scu).add_scu(sopclass.storage_scu, [svc.SC_STORAGE])
    return ae


def peer(events, results=(0,)):
    """Scripted peer.  events: what the peer does when it sees the k-th DIMSE request:
       'ok' answer normally | ('abort', s, r) | ('release',) | 'half-find' (2 pending responses, then the event
       that follows in the list)."""
    state = {'n': 0, 'sent': []}

    def responder(dul, rec):
        if rec['kind'] == 'pdu':
            t = rec['spec'].get('t')
            if t == 1:
                first = events[0] if events else 'ok'
                if isinstance(first, tuple) and first[0] == 'reject':
                    return [fd.incoming_pdu({'t': 3, 'r1': 0, 'r2': 0, 'result': first[1], 'source': first[2], 'reason': first[3]})]
                pcs = [it for it in rec['spec']['items'] if it['t'] == 0x20]
                return [fd.incoming_pdu(fd.ac_spec([(it['id'], results[k % len(results)], svc.IMPLICIT)
                                                    for k, it in enumerate(pcs)], 64))]
            if t == 5:
                if 'ignore-release' in events:
                    return []
                return [fd.incoming_pdu({'t': 6, 'r1': 0, 'r2': 0})]
            return []
        ev = events[state['n']] if state['n'] < len(events) else 'ok'
        if ev == 'ignore-release':
            ev = 'ok'
        state['n'] += 1
        cf = rec['fields'].get(0x0100)
        pc = rec['pc_ids'][0]
        out = []

        def rsp(status, data=None):
            f = {0x0002: rec['fields'].get(0x0002), 0x0100: cf | 0x8000, 0x0120: rec['fields'].get(0x0110), 0x0900: status}
            if cf == 0x0001:
                f[0x1000] = rec['fields'].get(0x1000)
            return (lambda: fd.incoming_msg(dul, f, data, pc))
        if ev == 'half-find':
            out += [rsp(0xFF00, svc.enc_ds(svc.simple_ds(PatientName='A'))), rsp(0xFF00, svc.enc_ds(svc.simple_ds(PatientName='B')))]
            ev = events[state['n']] if state['n'] < len(events) else 'ok'
            state['n'] += 1
        if ev == 'ok':
            out.append(rsp(0x0000))
        elif ev[0] == 'abort':
            out.append(fd.incoming_pdu({'t': 7, 'r1': 0, 'r2': 0, 'r3': 0, 'source': ev[1], 'reason': ev[2]}))
        elif ev[0] == 'release':
            out.append(fd.incoming_pdu({'t': 5, 'r1': 0, 'r2': 0}))
        return out
    return responder


def requester_rejected(triple):
    from pynetdicom2 import exceptions
    case = {'kind': 'requester-rejected', 'triple': list(triple)}
    ae = make_client()
    fac = fd.Factory([lambda d: setattr(d, 'responder', peer([('reject',) + tuple(triple)]))])
    entered = []
    try:
        with fd.installed(fac):
            with ae.request_association(dict(REMOTE)) as assoc:
                entered.append(assoc)
        raise Violation('%s:rejected:no-error' % PROP, 'rejected association did not raise (body entered: %s)' % bool(entered), case)
    except exceptions.AssociationRejectedError as exc:
        got = (exc.result, exc.source, exc.diagnostic)
        if got != tuple(triple):
            raise Violation('%s:rejected:fields' % PROP, 'AssociationRejectedError carries %r, peer sent %r' % (got, tuple(triple)), case)
    except Violation:
        raise
    except Exception as exc:
        raise Violation('%s:rejected:wrong-error:%s' % (PROP, type(exc).__name__), 'rejection surfaced as %r' % (exc,), case)
    if entered:
        raise Violation('%s:rejected:body-entered' % PROP, 'the with-body ran on a rejected association', case)
    dul = fac.instances[0]
    after = [r['spec'].get('t') for r in dul.sent_pdus()][1:]
    if after or dul.sent_msgs():
        raise Violation('%s:rejected:traffic' % PROP, 'PDUs sent after the rejection: %r' % (after,), case)
    if not dul.killed:
        raise Violation('%s:rejected:not-ended' % PROP, 'provider not stopped after the rejection', case)


def exchange(assoc, kind, n):
    """One DIMSE exchange of the given kind; returns when complete."""
    if kind == 'echo':
        assoc.get_scu(svc.VERIFICATION)(n + 1)
    elif kind == 'find':
        for _ in assoc.get_scu(svc.PATIENT_FIND)(svc.simple_ds(PatientName='*', QueryRetrieveLevel='PATIENT'), n + 1):
            pass
    else:
        ds = svc.simple_ds(PatientName='S' * 200, SOPClassUID=svc.SC_STORAGE, SOPInstanceUID='1.2.3.4')
        assoc.get_scu(svc.SC_STORAGE)(ds, n + 1)


def requester_peer_event(position, kind, event):
    """The peer aborts / requests release at `position` in {'first', 'between', 'half-find', 'store'}."""
    from pynetdicom2 import exceptions
    case = {'kind': 'requester-peer-event', 'position': position, 'exchange': kind, 'event': list(event)}
    ae = make_client()
    if position == 'first':
        script, kinds = [event], [kind]
    elif position == 'between':
        script, kinds = ['ok', event], ['echo', kind]
    elif position == 'half-find':
        script, kinds = ['ok', 'half-find', event], ['echo', 'find']
    else:
        script, kinds = ['ok', event], ['echo', 'store']
    fac = fd.Factory([lambda d: setattr(d, 'responder', peer(script))])
    raised = None
    try:
        with fd.installed(fac):
            with ae.request_association(dict(REMOTE)) as assoc:
                for i, k in enumerate(kinds):
                    exchange(assoc, k, i)
    except exceptions.NetDICOMError as exc:
        raised = exc
    except Exception as exc:
        raise Violation('%s:peer-event:wrong-error:%s' % (PROP, type(exc).__name__),
                        'peer %s at %s surfaced as %r' % (event[0], position, exc), case)
    if event[0] == 'abort':
        if not isinstance(raised, exceptions.AssociationAbortedError):
            raise Violation('%s:peer-abort:error-type' % PROP, 'peer abort at %s surfaced as %r' % (position, raised), case)
        if (raised.source, raised.reason_diag) != (event[1], event[2]):
            raise Violation('%s:peer-abort:fields' % PROP, 'AssociationAbortedError(%r, %r), peer sent (%d, %d)'
                            % (raised.source, raised.reason_diag, event[1], event[2]), case)
    else:
        if not isinstance(raised, exceptions.AssociationReleasedError):
            raise Violation('%s:peer-release:error-type' % PROP, 'peer release request at %s surfaced as %r' % (position, raised), case)
        # the peer waits for an answer to its A-RELEASE-RQ: the block is left through that error, which aborts the
        # association (an A-RELEASE-RP would do as well) - saying nothing leaves the peer hanging
        answers = [r['spec'].get('t') for r in fac.instances[0].sent_pdus() if r['spec'].get('t') in (5, 6, 7)]
        if answers not in ([7], [6]):
            raise Violation('%s:peer-release:unanswered' % PROP, 'peer requested release at %s; after surfacing it the requester '
                            'handed %r to the provider (A-ABORT or A-RELEASE-RP expected)' % (position, answers), case)
    if not fac.instances[0].killed:
        raise Violation('%s:peer-event:not-ended' % PROP, 'provider not stopped', case)


class _Done(Exception):
    pass


def requester_release_ignored(where):
    """Normal exit, but the peer never confirms the release: the release attempt ends in the library's time-out
    error, i.e. the block is left through an error after all - and that aborts the association."""
    from pynetdicom2 import exceptions
    case = {'kind': 'release-ignored', 'where': where}
    ae = make_client()
    fac = fd.Factory([lambda d: setattr(d, 'responder', peer(['ok', 'ignore-release']))])
    raised = None
    try:
        with fd.installed(fac):
            with ae.request_association(dict(REMOTE)) as assoc:
                if where == 'between':
                    exchange(assoc, 'echo', 0)
    except exceptions.NetDICOMError as exc:
        raised = exc
    except Exception as exc:
        raise Violation('%s:release-ignored:wrong-error:%s' % (PROP, type(exc).__name__), 'unconfirmed release surfaced as %r' % (exc,), case)
    dul = fac.instances[0]
    kinds = [r['spec'].get('t') for r in dul.sent_pdus()][1:]
    if kinds != [5, 7]:
        raise Violation('%s:release-ignored:pdus' % PROP, 'peer ignores A-RELEASE-RQ: requester handed %r to the provider '
                        '(A-RELEASE-RQ, then A-ABORT expected); caller saw %r' % (kinds, raised), case)
    if not dul.killed:
        raise Violation('%s:release-ignored:not-ended' % PROP, 'provider not stopped', case)


def requester_exit(mode, where, results=(0,)):
    """mode: 'normal' | 'Boom' | 'KeyError' | 'NetDICOMError' | 'generator'; where: 'first' | 'between';
    results: result codes the peer answers the proposed contexts with (cycled) - an association whose contexts
    were all refused is still an association and is left the same way."""
    from pynetdicom2 import exceptions
    case = {'kind': 'requester-exit', 'mode': mode, 'where': where, 'results': list(results)}
    ae = make_client()
    fac = fd.Factory([lambda d: setattr(d, 'responder', peer(['ok', 'half-find', 'ok'] if mode in ('generator', 'abandoned-generator') else [],
                                                             tuple(results)))])
    thrown = {'Boom': Boom('x'), 'KeyError': KeyError('k'), 'NetDICOMError': exceptions.NetDICOMError('n'),
              'generator': Boom('in generator'), 'Interrupt': Interrupt('stop')}.get(mode)
    raised = None
    try:
        with fd.installed(fac):
            if mode == 'normal-in-handler':
                # the association is requested, used and left normally while the caller is handling an unrelated
                # earlier error (fall-back code in an except block): still a normal exit
                try:
                    raise IOError('primary archive unreachable')
                except IOError:
                    with ae.request_association(dict(REMOTE)) as assoc:
                        if where == 'between':
                            exchange(assoc, 'echo', 0)
                mode = 'normal'
                raise _Done()
            if mode == 'abandoned-generator':
                # the with-block lives in a generator function (as in the c_find() wrapper of the package); its caller
                # takes the first match and drops the generator: the block is left by GeneratorExit
                def wrapper():
                    with ae.request_association(dict(REMOTE)) as assoc:
                        exchange(assoc, 'echo', 0)
                        for item in assoc.get_scu(svc.PATIENT_FIND)(svc.simple_ds(PatientName='*', QueryRetrieveLevel='PATIENT'), 7):
                            yield item
                g_ = wrapper()
                next(g_)
                g_.close()
                raise _Done()
            with ae.request_association(dict(REMOTE)) as assoc:
                if where == 'between':
                    exchange(assoc, 'echo', 0)
                if mode == 'generator':
                    if where != 'between':
                        exchange(assoc, 'echo', 0)
                    gen = assoc.get_scu(svc.PATIENT_FIND)(svc.simple_ds(PatientName='*', QueryRetrieveLevel='PATIENT'), 7)
                    next(gen)
                    raise thrown
                if thrown is not None:
                    raise thrown
    except _Done:
        pass
    except BaseException as exc:     # noqa
        raised = exc
    dul = fac.instances[0]
    kinds = [r['spec'].get('t') for r in dul.sent_pdus()][1:]
    if mode == 'abandoned-generator':
        if raised is not None:
            raise Violation('%s:exit:abandoned-raised:%s' % (PROP, lib_frame(raised)), 'closing the generator raised %r' % (raised,), case)
        if kinds not in ([7], [5]) or not dul.killed:
            raise Violation('%s:exit:abandoned' % PROP, 'a with-block left because the generator it lives in was closed after the '
                            'first C-FIND match: PDUs sent afterwards %r (expected an A-ABORT), provider stopped: %s - the '
                            'association is neither released nor aborted, its provider thread lives on' % (kinds, dul.killed), case)
        return
    if mode == 'normal':
        if raised is not None:
            raise Violation('%s:exit:normal-raised:%s' % (PROP, lib_frame(raised)), 'normal exit raised %r' % (raised,), case)
        if kinds != [5]:
            raise Violation('%s:exit:normal-pdus' % PROP, 'normal exit sent PDUs %r, expected exactly one A-RELEASE-RQ' % (kinds,), case)
    else:
        if raised is not thrown:
            raise Violation('%s:exit:error-masked' % PROP, 'body raised %r, caller saw %r' % (thrown, raised), case)
        if kinds != [7]:
            raise Violation('%s:exit:error-pdus' % PROP, 'exceptional exit sent PDUs %r, expected exactly one A-ABORT' % (kinds,), case)
        ab = dul.sent_pdus(7)[0]['spec']
        if ab['source'] != 0:
            raise Violation('%s:exit:abort-source' % PROP, 'A-ABORT source %d on a user-side error' % ab['source'], case)
    if not dul.killed:
        raise Violation('%s:exit:not-ended' % PROP, 'provider not stopped after leaving the association', case)


def requester_nested(event, where):
    """Inside the block of a live association to peer A the caller requests a second association to peer B, which refuses it
    (or aborts / asks for release during the first exchange).  B's error leaves A's block as well: A is left through an
    error and must be aborted - it is B that is gone, not A - and the caller sees B's error with B's fields."""
    from pynetdicom2 import exceptions
    case = {'kind': 'requester-nested', 'event': list(event), 'where': where}
    ae = make_client()
    b_events = [tuple(event)] if event[0] == 'reject' else [tuple(event)]
    fac = fd.Factory([lambda d: setattr(d, 'responder', peer([])),
                      lambda d: setattr(d, 'responder', peer(b_events))])
    raised = None
    try:
        with fd.installed(fac):
            with ae.request_association(dict(REMOTE)) as a:
                if where == 'between':
                    exchange(a, 'echo', 0)
                with ae.request_association(dict(REMOTE, aet='OTHER')) as b:
                    exchange(b, 'echo', 0)
                raise _Done()
    except _Done:
        raise Violation('%s:nested:no-error' % PROP, 'the second association was to fail with %r, nothing was raised' % (event,), case)
    except BaseException as exc:    # noqa
        raised = exc
    want = {'reject': exceptions.AssociationRejectedError, 'abort': exceptions.AssociationAbortedError,
            'release': exceptions.AssociationReleasedError}[event[0]]
    if not isinstance(raised, want):
        raise Violation('%s:nested:wrong-error:%s' % (PROP, lib_frame(raised)), 'second association: peer did %r, caller saw %r' % (event, raised), case)
    if event[0] == 'reject' and (raised.result, raised.source, raised.diagnostic) != tuple(event[1:]):
        raise Violation('%s:nested:fields' % PROP, 'rejection %r surfaced as %r' % (event[1:], (raised.result, raised.source, raised.diagnostic)), case)
    if event[0] == 'abort' and (raised.source, raised.reason_diag) != tuple(event[1:]):
        raise Violation('%s:nested:fields' % PROP, 'abort %r surfaced as %r' % (event[1:], (raised.source, raised.reason_diag)), case)
    dul = fac.instances[0]
    kinds = [r['spec'].get('t') for r in dul.sent_pdus()][1:]
    if kinds != [7]:
        raise Violation('%s:nested:outer-not-aborted' % PROP, 'a live association was left through the error of ANOTHER association '
                        '(%r): PDUs sent on it afterwards %r, expected exactly one A-ABORT' % (event, kinds), case)
    if dul.sent_pdus(7)[0]['spec']['source'] != 0:
        raise Violation('%s:exit:abort-source' % PROP, 'A-ABORT source %d on a user-side error' % dul.sent_pdus(7)[0]['spec']['source'], case)
    for i, d in enumerate(fac.instances):
        if not d.killed:
            raise Violation('%s:nested:not-ended' % PROP, 'provider of association %d not stopped' % (i + 1), case)


def provider_abort_in_flight(role, source, reason, nfrag):
    """The application sends a message of `nfrag` data fragments and aborts with (source, reason) right away - both
    primitives are with the provider before it has written the first fragment (what `asce.send(msg); asce.abort(reason)`
    amounts to).  The real provider loop runs on the simulated transport: whatever it does with the message, the A-ABORT
    it writes carries exactly the source and reason the application gave, and it is the last PDU written."""
    from pynetdicom2 import pdu
    from .. import simnet, convs, refpdu
    case = {'kind': 'provider-abort-in-flight', 'role': role, 'source': source, 'reason': reason, 'nfrag': nfrag}
    if role == 'acceptor':
        prefix = [{'k': 'seg', 'data': refpdu.enc_pdu(convs.RQ_SPEC), 'eager': False}, {'k': 'user', 'prim': convs.user_prim({'pdu': convs.AC_SPEC})}]
    else:
        prefix = [{'k': 'user', 'prim': convs.user_prim({'pdu': convs.RQ_SPEC})}, {'k': 'seg', 'data': refpdu.enc_pdu(convs.AC_SPEC), 'eager': False}]

    def both(sim):
        msg = convs.user_prim({'msg': convs.store_rq_pdus(nfrag, pc_id=3)})
        sim.provider.send(x for x in msg)
        return pdu.AAbortPDU(source=source, reason_diag=reason)
    actions = prefix + [{'k': 'user', 'fn': both}, {'k': 'close', 'eager': False}, {'k': 'tick', 'dt': 11.5}]
    sim = simnet.Sim(role, actions)
    sim.run()
    if sim.outcome[0] != 'returned':
        raise Violation('%s:abort-in-flight:%s' % (PROP, sim.outcome[0]), '%s: provider loop: %r' % (role, sim.outcome), case)
    try:
        pdus = refpdu.parse_stream(sim.wire())
    except refpdu.RefError as exc:
        raise Violation('%s:abort-in-flight:wire' % PROP, 'bytes written do not parse: %s' % exc, case)
    aborts = [p for p in pdus if p['t'] == 7]
    if len(aborts) != 1 or pdus[-1]['t'] != 7:
        raise Violation('%s:abort-in-flight:count' % PROP, '%s: message of %d fragments and an abort request handed over together: PDUs written %r, '
                        'expected exactly one A-ABORT, last' % (role, nfrag + 1, [p['t'] for p in pdus]), case)
    got = (aborts[0]['source'], aborts[0]['reason'])
    if got != (source, reason):
        raise Violation('%s:abort-in-flight:fields' % PROP, '%s: the application aborted with (source, reason) = %r while a message of %d fragments '
                        'was with the provider; the A-ABORT on the wire carries %r' % (role, (source, reason), nfrag + 1, got), case)


# ---- acceptor: peer aborts / releases ------------------------------------------------------------------
def acceptor_peer_event(event, after):
    """The requesting peer sends `after` echo requests and then an A-ABORT(s, r) or an A-RELEASE-RQ."""
    from pynetdicom2 import sopclass
    case = {'kind': 'acceptor-peer-event', 'event': list(event), 'after': after}
    ae = svc.make_server({}, [sopclass.verification_scp])
    msgs = [({0x0002: svc.VERIFICATION, 0x0100: 0x0030, 0x0110: i}, None, 1) for i in range(after)]
    if event[0] == 'abort':
        msgs.append({'pdu': {'t': 7, 'r1': 0, 'r2': 0, 'r3': 0, 'source': event[1], 'reason': event[2]}})
    else:
        msgs.append('release')
    msgs.append(({0x0002: svc.VERIFICATION, 0x0100: 0x0030, 0x0110: 999}, None, 1))     # must never be served
    try:
        acc, fac, exc = fd.run_acceptor(ae, [svc.primary_plan([(1, svc.VERIFICATION)], msgs)])
    finally:
        ae.server_close()
    if exc is not None:
        raise Violation('%s:acceptor-event:exception:%s' % (PROP, lib_frame(exc)), 'acceptor raised %r' % (exc,), case)
    dul = fac.instances[0]
    kinds = [r['spec'].get('t') for r in dul.sent_pdus()]
    want = [2, 6] if event[0] == 'release' else [2]
    if kinds != want:
        raise Violation('%s:acceptor-event:pdus' % PROP, 'after peer %s the acceptor sent PDUs %r, expected %r'
                        % (event[0], kinds, want), case)
    served = [r['fields'].get(0x0120) for r in dul.sent_msgs()]
    if served != list(range(after)):
        raise Violation('%s:acceptor-event:served' % PROP, 'requests answered %r, expected %r' % (served, list(range(after))), case)
    if not dul.killed:
        raise Violation('%s:acceptor-event:not-ended' % PROP, 'provider not stopped', case)


# ---- loopback: a scripted raw-socket peer against the real requesting stack ------------------------------
def _read_pdu(conn):
    import struct
    hdr = b''
    while len(hdr) < 6:
        chunk = conn.recv(6 - len(hdr))
        if not chunk:
            return None
        hdr += chunk
    n = struct.unpack('>I', hdr[2:6])[0]
    body = b''
    while len(body) < n:
        chunk = conn.recv(n - len(body))
        if not chunk:
            return None
        body += chunk
    return hdr + body


def loopback_case(kind, values, mode):
    """kind 'abort': the peer answers the first C-ECHO and aborts with (source, reason), the A-ABORT written
    together with the response ('coalesced') or separately, then closes at once.  kind 'reject': the peer answers
    the request with A-ASSOCIATE-RJ(result, source, reason) and closes at once."""
    import socket
    import threading
    import time
    from pynetdicom2 import applicationentity, sopclass, exceptions
    from .. import refpdu, refcmd, loopback as lb
    case = {'kind': 'loopback', 'what': kind, 'values': list(values), 'mode': mode}
    srv = socket.socket(socket.AF_INET, socket.SOCK_STREAM)
    srv.bind(('127.0.0.1', 0))
    srv.listen(1)
    port = srv.getsockname()[1]
    errors = []

    def peer():
        try:
            conn, _ = srv.accept()
            conn.settimeout(10)
            rq = refpdu.parse_pdu(_read_pdu(conn))
            # '-reserved': a foreign implementation that does not zero its reserved fields (not tested on receipt)
            rsv = 0x2A if mode.endswith('-reserved') else 0
            if kind == 'reject':
                conn.sendall(refpdu.enc_pdu({'t': 3, 'r1': rsv, 'r2': rsv, 'result': values[0], 'source': values[1], 'reason': values[2]}))
                conn.close()
                return
            pcs = [it for it in rq['items'] if it['t'] == 0x20]
            conn.sendall(refpdu.enc_pdu(fd.ac_spec([(it['id'], 0, svc.IMPLICIT) for it in pcs], 16384, reserved=rsv * 0x101,
                                                   ver=0x0003 if rsv else 1)))
            req = refpdu.parse_pdu(_read_pdu(conn))
            cmd, _ = refcmd.wellformed(req['pdvs'][0]['data'][1:])
            rsp = refcmd.encode({0x0002: svc.VERIFICATION, 0x0100: 0x8030, 0x0120: cmd.get(0x0110), 0x0800: 0x0101, 0x0900: 0})
            rsp_pdu = refpdu.enc_pdu({'t': 4, 'r': rsv, 'pdvs': [{'id': req['pdvs'][0]['id'], 'data': b'\x03' + rsp}]})
            abort = refpdu.enc_pdu({'t': 7, 'r1': rsv, 'r2': rsv, 'r3': rsv, 'source': values[0], 'reason': values[1]})
            if mode.startswith('coalesced'):
                conn.sendall(rsp_pdu + abort)
            else:
                conn.sendall(rsp_pdu)
                time.sleep(0.3)
                conn.sendall(abort)
            conn.close()
        except Exception as exc:      # noqa
            errors.append(exc)
        finally:
            srv.close()
    th = threading.Thread(target=peer, daemon=True)
    th.start()
    ae = applicationentity.ClientAE('CLI', [svc.IMPLICIT])
    ae.timeout = 6
    ae.add_scu(sopclass.verification_scu)
    raised = None
    first = None
    try:
        with ae.request_association({'aet': 'SRV', 'address': '127.0.0.1', 'port': port}) as assoc:
            first = int(assoc.get_scu(svc.VERIFICATION)(1))
            time.sleep(0.5)
            assoc.get_scu(svc.VERIFICATION)(2)
    except exceptions.DCMTimeoutError:
        raise lb.Inconclusive('library time-out')
    except Exception as exc:
        raised = exc
    th.join(5)
    if errors:
        raise lb.Inconclusive('scripted peer failed: %r' % (errors[0],))
    if kind == 'reject':
        if not isinstance(raised, exceptions.AssociationRejectedError) or \
                (raised.result, raised.source, raised.diagnostic) != tuple(values):
            raise Violation('%s:loopback:reject' % PROP, 'peer rejected with %r, requester saw %r %r'
                            % (tuple(values), raised, getattr(raised, '__dict__', None)), case)
        return
    if first != 0:
        raise Violation('%s:loopback:first-exchange' % PROP, 'first C-ECHO returned %r (%r)' % (first, raised), case)
    if not isinstance(raised, exceptions.AssociationAbortedError) or (raised.source, raised.reason_diag) != tuple(values):
        raise Violation('%s:loopback:abort-fields' % PROP, 'peer aborted with (source, reason) = %r (%s), requester saw %r %r'
                        % (tuple(values), mode, raised, getattr(raised, '__dict__', None)), case)


def loopback_release_in_flight(n_late):
    """The requester leaves the association normally while the peer still has responses in flight: the peer sends
    n_late more C-FIND responses after it got the A-RELEASE-RQ and only then its A-RELEASE-RP.  The association
    must end as a release: the peer sees exactly one A-RELEASE-RQ and never an A-ABORT."""
    import socket
    import threading
    import time
    from pynetdicom2 import applicationentity, sopclass, exceptions
    from .. import refpdu, refcmd, loopback as lb
    case = {'kind': 'loopback', 'what': 'release-in-flight', 'values': [n_late], 'mode': 'late-responses'}
    srv = socket.socket(socket.AF_INET, socket.SOCK_STREAM)
    srv.bind(('127.0.0.1', 0))
    srv.listen(1)
    port = srv.getsockname()[1]
    errors, seen = [], []

    def peer():
        try:
            conn, _ = srv.accept()
            conn.settimeout(8)
            rq = refpdu.parse_pdu(_read_pdu(conn))
            pcs = [it for it in rq['items'] if it['t'] == 0x20]
            conn.sendall(refpdu.enc_pdu(fd.ac_spec([(it['id'], 0, svc.IMPLICIT) for it in pcs], 16384)))
            find = b''
            pc = None
            while True:                                   # the C-FIND-RQ (command + identifier fragments)
                p = refpdu.parse_pdu(_read_pdu(conn))
                pc = p['pdvs'][0]['id']
                if p['pdvs'][-1]['data'][0] == 2:
                    break
                if p['pdvs'][-1]['data'][0] & 1:
                    find += p['pdvs'][-1]['data'][1:]
            cmd, _ = refcmd.wellformed(find)

            def rsp(status, ds):
                c = refcmd.encode({0x0002: cmd.get(0x0002), 0x0100: 0x8020, 0x0120: cmd.get(0x0110),
                                   0x0800: 1 if ds else 0x0101, 0x0900: status})
                pdvs = [{'id': pc, 'data': b'\x03' + c}] + ([{'id': pc, 'data': b'\x02' + ds}] if ds else [])
                return b''.join(refpdu.enc_pdu({'t': 4, 'pdvs': [v]}) for v in pdvs)
            ident = svc.enc_ds(svc.simple_ds(PatientName='LATE'))
            conn.sendall(rsp(0xFF00, ident))
            raw = _read_pdu(conn)                         # what the requester sends after the first match
            seen.append(raw[0])
            for _i in range(n_late):
                conn.sendall(rsp(0xFF00, ident))
            conn.sendall(refpdu.enc_pdu({'t': 6}))
            conn.settimeout(3)
            try:
                while True:
                    more = _read_pdu(conn)
                    if more is None:
                        break
                    seen.append(more[0])
            except (socket.timeout, OSError):
                pass
            conn.close()
        except Exception as exc:      # noqa
            errors.append(exc)
        finally:
            srv.close()
    th = threading.Thread(target=peer, daemon=True)
    th.start()
    ae = applicationentity.ClientAE('CLI', [svc.IMPLICIT])
    ae.timeout = 6
    ae.add_scu(sopclass.qr_find_scu)
    raised = None
    try:
        with ae.request_association({'aet': 'SRV', 'address': '127.0.0.1', 'port': port}) as assoc:
            for ds, status in assoc.get_scu(svc.PATIENT_FIND)(svc.simple_ds(PatientName='*', QueryRetrieveLevel='PATIENT'), 1):
                break                                     # the caller has what it wanted and leaves normally
    except exceptions.DCMTimeoutError:
        raise lb.Inconclusive('library time-out')
    except Exception as exc:
        raised = exc
    th.join(12)
    if errors:
        raise lb.Inconclusive('scripted peer failed: %r' % (errors[0],))
    if raised is not None:
        raise Violation('%s:loopback:release-raised:%s' % (PROP, lib_frame(raised)), 'leaving normally raised %r' % (raised,), case)
    if seen != [5]:
        raise Violation('%s:loopback:release-in-flight' % PROP, 'normal exit with %d response(s) still in flight: the peer received '
                        'PDU types %r, expected exactly one A-RELEASE-RQ' % (n_late, seen), case)


def loopback_abort_while_sending(source, reason):
    """The peer takes the first P-DATA-TF PDU of a large C-STORE, sends A-ABORT(source, reason), stops reading (it ran
    out of resources) and closes a little later.  The abort was received by the requester's transport while the send
    was still going on: it surfaces with its source and reason."""
    import socket
    import threading
    import time
    from pynetdicom2 import applicationentity, sopclass, exceptions, dimsemessages
    from .. import refpdu, loopback as lb
    case = {'kind': 'loopback', 'what': 'abort-while-sending', 'values': [source, reason], 'mode': 'large-store'}
    CT = svc.CT_STORAGE
    srv = socket.socket(socket.AF_INET, socket.SOCK_STREAM)
    srv.setsockopt(socket.SOL_SOCKET, socket.SO_RCVBUF, 8192)
    srv.bind(('127.0.0.1', 0))
    srv.listen(1)
    port = srv.getsockname()[1]
    errors = []

    def peer():
        conn = None
        try:
            conn, _ = srv.accept()
            conn.settimeout(10)
            rq = refpdu.parse_pdu(_read_pdu(conn))
            pcs = [it for it in rq['items'] if it['t'] == 0x20]
            conn.sendall(refpdu.enc_pdu(fd.ac_spec([(it['id'], 0, svc.IMPLICIT) for it in pcs], 16384)))
            _read_pdu(conn)
            conn.sendall(refpdu.enc_pdu({'t': 7, 'r1': 0, 'r2': 0, 'r3': 0, 'source': source, 'reason': reason}))
            time.sleep(2.0)         # (not reading any more)
        except Exception as exc:      # noqa
            errors.append(exc)
        finally:
            if conn is not None:
                conn.close()
            srv.close()
    th = threading.Thread(target=peer, daemon=True)
    th.start()
    ae = applicationentity.ClientAE('CLI', [svc.IMPLICIT])
    ae.timeout = 20
    ae.add_scu(sopclass.storage_scu, [CT])
    msg = dimsemessages.CStoreRQMessage()
    msg.message_id = 1
    msg.priority = 0
    msg.sop_class_uid = CT
    msg.affected_sop_instance_uid = '1.2.3.4'
    msg.data_set = b'\0' * (24 << 20)
    seen = None
    try:
        with ae.request_association({'aet': 'SRV', 'address': '127.0.0.1', 'port': port}) as assoc:
            pc_id = assoc.sop_classes_as_scu[CT][0]
            assoc.send(msg, pc_id)
            assoc.receive()
            seen = 'a response'
    except exceptions.DCMTimeoutError:
        raise lb.Inconclusive('library time-out')
    except exceptions.AssociationAbortedError as exc:
        seen = (exc.source, exc.reason_diag)
    except Exception as exc:
        seen = repr(exc)
    th.join(10)
    if errors:
        raise lb.Inconclusive('scripted peer failed: %r' % (errors[0],))
    if seen != (source, reason):
        raise Violation('%s:loopback:abort-while-sending' % PROP, 'the peer aborted with (source %d, reason %d) after the first '
                        'PDU of a 24 MiB C-STORE and stopped reading; the requester saw %r' % (source, reason, seen), case)


def run_loopback(ctx, n_rounds):
    from .. import loopback as lb
    cases = [('abort', (2, 6), 'coalesced'), ('abort', (0, 0), 'coalesced'), ('abort', (2, 1), 'separate'),
             ('abort', (1, 9), 'coalesced'), ('reject', (1, 1, 3), 'immediate'), ('reject', (2, 3, 2), 'immediate'),
             ('abort', (2, 4), 'coalesced-reserved'), ('abort', (0, 5), 'separate-reserved'), ('reject', (1, 1, 7), 'immediate-reserved')]
    for r in range(n_rounds):
        for kind, values, mode in cases:
            try:
                lb.reproduced(loopback_case, kind, values, mode)
                ctx.case(('loopback', kind, values, mode, r), True, labels=['loopback-raw-peer', kind, mode],
                         sample={'loopback': kind, 'values': values, 'mode': mode})
            except lb.Inconclusive:
                ctx.inconclusive += 1
            except Violation as v:
                ctx.fail(v.key, v.what, v.case)
        try:
            # (real sockets and real time: a mismatch must reproduce three times in a row before it is reported)
            for attempt in range(3):
                try:
                    loopback_abort_while_sending(2, 6 if r % 2 == 0 else 1)
                    break
                except Violation:
                    if attempt == 2:
                        raise
            ctx.case(('loopback', 'abort-while-sending', r), True, labels=['loopback-raw-peer', 'abort-while-sending'],
                     sample={'loopback': 'abort-while-sending'})
        except lb.Inconclusive:
            ctx.inconclusive += 1
        except Violation as v:
            ctx.fail(v.key, v.what, v.case)
        for n_late in (0, 1, 3):
            try:
                lb.reproduced(loopback_release_in_flight, n_late)
                ctx.case(('loopback', 'release-in-flight', n_late, r), True, labels=['loopback-raw-peer', 'release-in-flight'],
                         sample={'loopback': 'release-in-flight', 'late_responses': n_late})
            except lb.Inconclusive:
                ctx.inconclusive += 1
            except Violation as v:
                ctx.fail(v.key, v.what, v.case)


# ------------------------------------------------------------------------------------------------
def run(ctx):
    quiet_warnings()
    ctx.rule = ('acceptor refusing with every standard (result, source, reason) triple and Hypothesis triples over '
                '0-255^3; requester rejected with the same triples; peer A-ABORT (standard and generated source/reason) '
                'or A-RELEASE-RQ arriving before any DIMSE exchange, between two exchanges, inside a half-consumed '
                'C-FIND response stream and during a multi-fragment C-STORE; leaving request_association normally or '
                'through 3 exception types / a BaseException (as KeyboardInterrupt is) / an exception raised while an SCU generator is half consumed / the generator the with-block lives in being closed early; acceptor '
                'side peer abort/release after 0-3 served requests; one long-lived entity answering 300-330 associations in a row (refused / served / aborted) each judged as if it were the first; 10 loopback cases with a raw-socket peer (incl. normal exit while responses are still in flight, and an abort arriving while a 24 MiB C-STORE is being sent to a peer that stopped reading); non-trivial = non-default field values or an event '
                'in mid-exchange')
    ctx.assumptions = ['provider replaced by vf/fakedul.py (the own handling by the provider of these PDUs is C04/C05)',
                       'a raw-socket scripted peer exercises the real requesting stack over loopback (A-ABORT coalesced with a response and '
                       'followed by an immediate close; A-ASSOCIATE-RJ followed by an immediate close); time-outs there are inconclusive']
    for t in STANDARD_RJ:
        ctx.case(('acc-rj', t), True, labels=['acceptor-reject', 'standard'], sample={'reject': t})
        ctx.check(acceptor_reject, t)
        ctx.case(('req-rj', t), True, labels=['requester-rejected', 'standard'], sample={'rejected_with': t})
        ctx.check(requester_rejected, t)
    events = [('abort', s, r) for s, r in STANDARD_ABORT] + [('release',)]
    for pos in ('first', 'between', 'half-find', 'store'):
        for ev in events:
            kind = {'half-find': 'find', 'store': 'store'}.get(pos, 'echo')
            ctx.case(('peer', pos, ev), pos != 'first' or ev[1:] not in ((), (0, 0)), labels=['peer-' + ev[0], 'at=' + pos],
                     sample={'position': pos, 'event': ev})
            ctx.check(requester_peer_event, pos, kind, ev)
    for mode in ('normal', 'normal-in-handler', 'Boom', 'KeyError', 'NetDICOMError', 'generator', 'Interrupt', 'abandoned-generator'):
        for where in ('first', 'between'):
            ctx.case(('exit', mode, where), mode != 'normal' or where == 'between', labels=['exit=' + mode],
                     sample={'exit': mode, 'where': where})
            ctx.check(requester_exit, mode, where)
        if mode not in ('generator', 'abandoned-generator'):
            # the peer accepted the association but none / only the first (verification) of its contexts
            for results in ((3,), (1, 2, 3, 4), (0, 3, 4)):
                ctx.case(('exit', mode, results), True, labels=['exit=' + mode, 'contexts-refused'],
                         sample={'exit': mode, 'context results': results})
                ctx.check(requester_exit, mode, 'between' if results[0] == 0 else 'first', results)
    for event in (('reject', 1, 1, 1), ('reject', 2, 3, 2), ('reject', 1, 2, 2), ('abort', 0, 0), ('abort', 2, 6), ('release',)):
        for where in ('first', 'between'):
            ctx.case(('nested', event, where), True, labels=['exit=error-of-a-nested-association', 'nested-' + event[0]],
                     sample={'nested association': event, 'where': where})
            ctx.check(requester_nested, event, where)
    for role in ('acceptor', 'requestor'):
        for sr in ((2, 3), (0, 5), (0, 0), (2, 6), (1, 255), (2, 0)):
            for nfrag in (1, 2, 5, 12):
                ctx.case(('abort-in-flight', role, sr, nfrag), sr != (0, 0), labels=['abort requested while a message is with the provider (real provider loop)'],
                         sample={'role': role, 'abort (source, reason)': sr, 'data fragments': nfrag})
                ctx.check(provider_abort_in_flight, role, sr[0], sr[1], nfrag)
    for where in ('first', 'between'):
        ctx.case(('release-ignored', where), True, labels=['release-never-confirmed'], sample={'where': where})
        ctx.check(requester_release_ignored, where)
    for ev in events:
        for after in (0, 1, 3):
            ctx.case(('acc-ev', ev, after), after > 0 or ev[1:] not in ((), (0, 0)), labels=['acceptor-peer-' + ev[0]])
            ctx.check(acceptor_peer_event, ev, after)

    for program in ([('rj', 300, (1, 1, 7)), ('serve', 2, (0, 0, 0)), ('rj', 2, (2, 3, 2))],
                    [('serve', 150, (0, 0, 0)), ('abort', 150, (0, 0, 0)), ('rj', 3, (1, 2, 1)), ('serve', 1, (0, 0, 0))],
                    [('abort', 280, (0, 0, 0)), ('rj', 40, (2, 1, 3)), ('serve', 1, (0, 0, 0))] * (3 if ctx.thorough else 1)):
        ctx.case(('long-lived', program), True, labels=['long-lived-entity'],
                 sample={'program': [(k, c) for k, c, _ in program]})
        ctx.check(acceptor_long_lived, program)
    run_loopback(ctx, 5 if ctx.thorough else 1)
    n = 20000 if ctx.thorough else 1500

    def fn(value):
        which, triple, pos = value
        ctx.case(value, True, labels=['generated', which], sample={'which': which, 'values': triple, 'position': pos})
        if which == 'acc-rj':
            acceptor_reject(triple)
        elif which == 'req-rj':
            requester_rejected(triple)
        elif which == 'abort':
            kind = {'half-find': 'find', 'store': 'store'}.get(pos, 'echo')
            requester_peer_event(pos, kind, ('abort', triple[0], triple[1]))
        else:
            acceptor_peer_event(('abort', triple[0], triple[1]), triple[2] % 4)
    strat = st.tuples(st.sampled_from(['acc-rj', 'req-rj', 'abort', 'acc-abort']), st.tuples(byte, byte, byte),
                      st.sampled_from(['first', 'between', 'half-find', 'store']))
    hyp_search(ctx, strat, fn, n, name='C14-generated', max_buckets=8)


def replay(case):
    quiet_warnings()
    k = case['kind']
    if k == 'acceptor-reject':
        acceptor_reject(tuple(case['triple']))
    elif k == 'acceptor-long-lived':
        acceptor_long_lived([(a, b, tuple(c)) for a, b, c in case['program']])
    elif k == 'requester-rejected':
        requester_rejected(tuple(case['triple']))
    elif k == 'requester-peer-event':
        requester_peer_event(case['position'], case['exchange'], tuple(case['event']))
    elif k == 'release-ignored':
        requester_release_ignored(case['where'])
    elif k == 'provider-abort-in-flight':
        provider_abort_in_flight(case['role'], case['source'], case['reason'], case['nfrag'])
    elif k == 'requester-nested':
        requester_nested(tuple(case['event']), case['where'])
    elif k == 'requester-exit':
        requester_exit(case['mode'], case['where'], tuple(case.get('results', (0,))))
    elif k == 'loopback':
        from .. import loopback as lb
        try:
            if case['what'] == 'release-in-flight':
                loopback_release_in_flight(case['values'][0])
            elif case['what'] == 'abort-while-sending':
                loopback_abort_while_sending(case['values'][0], case['values'][1])
            else:
                loopback_case(case['what'], tuple(case['values']), case['mode'])
        except lb.Inconclusive as inc:
            print('inconclusive: %s' % inc)
    else:
        acceptor_peer_event(tuple(case['event']), case['after'])
