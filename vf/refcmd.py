"""Engine B: independent reader/writer for DIMSE command sets (PS3.7 6.3, 9.3, 10.3, Annex E).

Command sets are always Implicit VR Little Endian: tag (group LE16, element LE16), length LE32,
value padded to even length.  Nothing here is derived from pynetdicom2 or pydicom.
"""
from __future__ import annotations

import struct


class CmdError(Exception):
    pass


# PS3.7 Annex E command dictionary: keyword -> (element, VR)
ELEMENTS = {
    'CommandGroupLength': (0x0000, 'UL'),
    'AffectedSOPClassUID': (0x0002, 'UI'),
    'RequestedSOPClassUID': (0x0003, 'UI'),
    'CommandField': (0x0100, 'US'),
    'MessageID': (0x0110, 'US'),
    'MessageIDBeingRespondedTo': (0x0120, 'US'),
    'MoveDestination': (0x0600, 'AE'),
    'Priority': (0x0700, 'US'),
    'CommandDataSetType': (0x0800, 'US'),
    'Status': (0x0900, 'US'),
    'OffendingElement': (0x0901, 'AT'),
    'ErrorComment': (0x0902, 'LO'),
    'ErrorID': (0x0903, 'US'),
    'AffectedSOPInstanceUID': (0x1000, 'UI'),
    'RequestedSOPInstanceUID': (0x1001, 'UI'),
    'EventTypeID': (0x1002, 'US'),
    'AttributeIdentifierList': (0x1005, 'AT'),
    'ActionTypeID': (0x1008, 'US'),
    'NumberOfRemainingSuboperations': (0x1020, 'US'),
    'NumberOfCompletedSuboperations': (0x1021, 'US'),
    'NumberOfFailedSuboperations': (0x1022, 'US'),
    'NumberOfWarningSuboperations': (0x1023, 'US'),
    'MoveOriginatorApplicationEntityTitle': (0x1030, 'AE'),
    'MoveOriginatorMessageID': (0x1031, 'US'),
}
VR_OF = {el: vr for el, vr in ELEMENTS.values()}
KEYWORD_OF = {el: kw for kw, (el, vr) in ELEMENTS.items()}

# PS3.7 9.3 / 10.3: command field -> (name, is response, SOP class element, SOP instance element
#                                     or None, extra mandatory-ish fields)
MESSAGES = {
    0x0001: ('C-STORE-RQ', False, 0x0002, 0x1000),
    0x8001: ('C-STORE-RSP', True, 0x0002, 0x1000),
    0x0020: ('C-FIND-RQ', False, 0x0002, None),
    0x8020: ('C-FIND-RSP', True, 0x0002, None),
    0x0010: ('C-GET-RQ', False, 0x0002, None),
    0x8010: ('C-GET-RSP', True, 0x0002, None),
    0x0021: ('C-MOVE-RQ', False, 0x0002, None),
    0x8021: ('C-MOVE-RSP', True, 0x0002, None),
    0x0030: ('C-ECHO-RQ', False, 0x0002, None),
    0x8030: ('C-ECHO-RSP', True, 0x0002, None),
    0x0FFF: ('C-CANCEL-RQ', None, None, None),
    0x0100: ('N-EVENT-REPORT-RQ', False, 0x0002, 0x1000),
    0x8100: ('N-EVENT-REPORT-RSP', True, 0x0002, 0x1000),
    0x0110: ('N-GET-RQ', False, 0x0003, 0x1001),
    0x8110: ('N-GET-RSP', True, 0x0002, 0x1000),
    0x0120: ('N-SET-RQ', False, 0x0003, 0x1001),
    0x8120: ('N-SET-RSP', True, 0x0002, 0x1000),
    0x0130: ('N-ACTION-RQ', False, 0x0003, 0x1001),
    0x8130: ('N-ACTION-RSP', True, 0x0002, 0x1000),
    0x0140: ('N-CREATE-RQ', False, 0x0002, 0x1000),
    0x8140: ('N-CREATE-RSP', True, 0x0002, 0x1000),
    0x0150: ('N-DELETE-RQ', False, 0x0003, 0x1001),
    0x8150: ('N-DELETE-RSP', True, 0x0002, 0x1000),
}
# expected library class names (PS3.7 message names in CamelCase)
CLASS_NAME = {cf: name.title().replace('-', '').replace('Rq', 'RQ').replace('Rsp', 'RSP') + 'Message'
              for cf, (name, _, _, _) in MESSAGES.items()}
CLASS_NAME[0x0FFF] = 'CCancelRQMessage'
NO_DATASET = 0x0101


def enc_value(vr, value):
    """value: int (US/UL), str (UI/AE/LO), list of ints (AT), None -> zero length."""
    if value is None or value == '':
        return b''
    if vr == 'US':
        vals = value if isinstance(value, (list, tuple)) else [value]
        return b''.join(struct.pack('<H', v) for v in vals)
    if vr == 'UL':
        return struct.pack('<I', value)
    if vr == 'AT':
        vals = value if isinstance(value, (list, tuple)) else [value]
        return b''.join(struct.pack('<HH', v >> 16, v & 0xFFFF) for v in vals)
    raw = value.encode('ascii')
    if len(raw) % 2:
        raw += b'\0' if vr == 'UI' else b' '
    return raw


def dec_value(vr, raw):
    if raw == b'':
        return None
    if vr == 'US':
        vals = [struct.unpack('<H', raw[i:i + 2])[0] for i in range(0, len(raw), 2)]
        return vals[0] if len(vals) == 1 else vals
    if vr == 'UL':
        return struct.unpack('<I', raw)[0]
    if vr == 'AT':
        vals = []
        for i in range(0, len(raw), 4):
            g, e = struct.unpack('<HH', raw[i:i + 4])
            vals.append((g << 16) | e)
        return vals[0] if len(vals) == 1 else vals
    txt = raw.decode('ascii', 'replace')
    return txt.rstrip('\0') if vr == 'UI' else txt.rstrip(' ')


def encode(fields, group_length=True):
    """fields: dict element number -> python value. Returns the command set bytes with a correct
    Command Group Length element first."""
    body = b''
    for el in sorted(e for e in fields if e != 0):
        raw = enc_value(VR_OF[el], fields[el])
        body += struct.pack('<HHI', 0, el, len(raw)) + raw
    if not group_length:
        return body
    return struct.pack('<HHII', 0, 0, 4, len(body)) + body


def parse(data):
    """Strictly parse a command set. Returns list of (element number, raw value bytes)."""
    data = bytes(data)
    out = []
    p = 0
    while p < len(data):
        if len(data) - p < 8:
            raise CmdError('truncated element header at offset %d' % p)
        g, e, n = struct.unpack('<HHI', data[p:p + 8])
        if g != 0:
            raise CmdError('element (%04X,%04X) is not in group 0000' % (g, e))
        if n == 0xFFFFFFFF or p + 8 + n > len(data):
            raise CmdError('element (0000,%04X) length %d exceeds the command set' % (e, n))
        out.append((e, data[p + 8:p + 8 + n]))
        p += 8 + n
    return out


def wellformed(data, cf_expected=None):
    """Returns (fields dict element->python value, list of defects)."""
    defects = []
    try:
        elems = parse(data)
    except CmdError as exc:
        return {}, ['unparseable: %s' % exc]
    if not elems or elems[0][0] != 0x0000:
        defects.append('first element is not (0000,0000)')
    else:
        raw = elems[0][1]
        if len(raw) != 4:
            defects.append('group length element has VL %d' % len(raw))
        else:
            gl = struct.unpack('<I', raw)[0]
            follows = len(data) - 12
            if gl != follows:
                defects.append('group length says %d, %d bytes follow' % (gl, follows))
    tags = [e for e, _ in elems]
    if any(b <= a for a, b in zip(tags, tags[1:])):
        defects.append('tags not strictly ascending: %s' % ['%04X' % t for t in tags])
    for e, raw in elems:
        if len(raw) % 2:
            defects.append('element (0000,%04X) has odd length %d' % (e, len(raw)))
    fields = {}
    for e, raw in elems:
        vr = VR_OF.get(e)
        try:
            fields[e] = dec_value(vr, raw) if vr else raw
        except Exception as exc:
            defects.append('element (0000,%04X) value undecodable: %r' % (e, exc))
    if cf_expected is not None and fields.get(0x0100) != cf_expected:
        defects.append('command field %r, expected %04XH' % (fields.get(0x0100), cf_expected))
    return fields, defects


def self_test():
    f = {0x0002: '1.2.840.10008.1.1', 0x0100: 0x0030, 0x0110: 7, 0x0800: 0x0101}
    b = encode(f)
    # C-ECHO-RQ from PS3.7: group length 56 for this SOP class uid (17 chars padded to 18)
    if struct.unpack('<I', b[8:12])[0] != len(b) - 12 or len(b) != 12 + (8 + 18) + 10 + 10 + 10:
        raise CmdError('command encoder self-test failed')
    fields, defects = wellformed(b, 0x0030)
    if defects or fields[0x0002] != '1.2.840.10008.1.1' or fields[0x0110] != 7:
        raise CmdError('command parser self-test failed: %r' % defects)
    bad = b[:8] + struct.pack('<I', 1) + b[12:]
    if not wellformed(bad)[1]:
        raise CmdError('command parser accepted a wrong group length')
    return True
