"""Regenerates /verif/MANIFEST.json from the table below (python -m vf.tools.mkmanifest)."""
import json
import os
import sys

VERIF = os.path.dirname(os.path.dirname(os.path.dirname(os.path.abspath(__file__))))

# id -> (built?, level category, technique, level text, level note, engine, design ref)
CHECKS = {
    'C01': (True, 'exploration',
            'Hypothesis structured generation + enumerated sub-item adjacencies; round-trip oracle',
            'Thousands of generated PDUs of all 7 types (items in any order, 9 sub-item kinds, '
            'boundary integers, payloads beyond 64 KiB, single fields of 32767..60000 bytes) and all 81+9 sub-item adjacencies are '
            'round-tripped: recursive field equality and byte-exact re-encoding. A long-lived-process run round-trips 2500 (thorough 12000) association PDUs with never-seen UIDs and then the early ones again.',
            'Round-trip only (conformance is C02). Generated values are restricted to what the '
            'public constructors document (AE <=16 chars, UID <=64 chars, item totals < 64 KiB).',
            'pdugen', 'DESIGN.md#C01'),
    'C02': (True, 'exploration',
            'Hypothesis differential against an independent strict reference PDU codec, both directions',
            'Library output is parsed by a strict length-driven reference parser (fields and every '
            'self-reported length compared); reference-encoded conformant PDUs (any sub-item order, '
            'unknown sub-item types, several syntaxes/PDVs, fields of 32 KiB and more) are decoded by the library and compared; objects modified after a first encode or after decode must encode as they are now.',
            'Trusts vf/refpdu.py (about 300 lines transcribed from PS3.8 9.3 / PS3.7 Annex D, with a '
            'self-test); AE titles compared modulo padding.', 'refpdu', 'DESIGN.md#C02'),
    'C03': (True, 'exploration',
            'exhaustive cut-offset enumeration + Hypothesis k-cuts on a simulated transport; metamorphic oracle (any segmentation == one PDU per segment)',
            'Fifteen conversations (both roles), Hypothesis-generated conversations and pipelined streams beyond 64 KiB are replayed through the real provider loop under a simulated '
            'socket/select with every single cut offset, pairs of cuts, one-byte dribble, whole bursts, random '
            'k-cuts, read sizes equal to the length (half, third) of each PDU, each with the first segment already waiting or not and segments back-to-back or spaced; '
            'indications, bytes sent and final state must equal the one-PDU-per-segment delivery. Long streams include ~1800 ignorable PDUs arriving at once after a local abort / a confirmed release.',
            'Transport modelled as an ordered byte stream (vf/simnet.py); cuts are applied within the bytes the '
            'peer sends between two local actions.', 'simnet', 'DESIGN.md#C03'),
    'C05': (True, 'exploration',
            'bounded-exhaustive history enumeration from state-reaching prefixes + Hypothesis random walks; step-by-step differential against an executable PS3.8 model',
            'All histories of up to 2 (quick) / 3 (thorough, ~400k histories) further events from 26 prefixes that '
            'reach every protocol state, the peer pausing inside a PDU (first bytes only, rest later or never) from each prefix with every primitive / time advance / close meanwhile, '
            'and random walks up to 30 steps (16 x 10000 in the thorough tier), are executed on the real provider loop '
            'under a deterministic transport/clock, with own maximum PDU lengths 65536 / 0 / 48 / 4096 (read sizes), file-backed and in-memory reception, and compared after every step with the model: PDUs written, '
            'indications, transport state, ARTIM, protocol state; plus the four invariants of the statement.',
            'Trusts vf/ulmodel.py; whole PDUs per segment except the explicit pause inside one PDU; depth bound beyond which only sampling.',
            'simnet+ulmodel', 'DESIGN.md#C05'),
    'C04': (True, 'exploration',
            'exhaustive cell enumeration (13 states x 19 events x role x timer x slot variants) against a transcribed Table 9-10 + Hypothesis PDU contents',
            'Every one of the 247 cells is executed on a real provider object (state set directly, no thread) '
            'for both roles, both ARTIM pre-states and every applicable primitive variant; wire bytes (parsed by '
            'the reference codec), indications, transport close/connect, ARTIM effect and next state are compared '
            'with an executable transcription of PS3.8 Table 9-10; undefined cells must have no effect.',
            'Trusts vf/ulmodel.py (table + actions transcribed from PS3.8 9.2). AA-4 indication object not '
            'constrained; AE-6 only in its "acceptable" branch.', 'ulmodel', 'DESIGN.md#C04'),
    'C06': (True, 'exploration',
            'exhaustive (max PDU length x boundary data length) grid + Hypothesis; fragment-stream invariants and byte-exact concatenation oracle',
            'Every maximum PDU length 7..70 (thorough 7..300) x every data length within +-2 of a multiple of the '
            'fragment size, 2^k boundaries up to 2^32-1, all 23 classes, seven data sources (bytes, BytesIO, files, positioned streams, gzip, a raw stream with short reads), both encode() and '
            'Association.send, several encode() generators consumed alternately; '
            'Association.send: size bound, flags, order, context id, non-emptiness and byte-exact content. Messages of 33000-70000 (thorough 300000) fragments are included.',
            'The command-set bytes are compared with dsutils.encode(command_set) (their well-formedness is C08) '
            'and re-read by the independent reader vf/refcmd.py.', 'refcmd', 'DESIGN.md#C06'),
    'C07': (True, 'exploration',
            'exhaustive PDV-grouping enumeration (all 2^(n-1) compositions for short lists) + Hypothesis; reference-encoded input',
            'Reference-encoded (and library-encoded) messages of all 23 command fields are delivered in every '
            'composition of their fragment list into PDUs (lists up to 9/12 fragments), sampled groupings for '
            'long lists, in-memory / temp-file / directory reception, every Command Data Set Type value but 0101H, genuine data sets in 3 transfer syntaxes, sequences of messages through the real provider loop; '
            'completion must flip exactly at the last required fragment and content must be byte-identical. One association carries 1.1 GiB (thorough 4.5 GiB) of ordinary 4 MiB messages through the real provider loop.',
            'Command sets and fragments come from vf/refcmd.py / vf/dimsegen.py, not from the library; '
            'fragments of a single message per sequence.', 'refcmd', 'DESIGN.md#C07'),
    'C08': (True, 'exploration',
            'Hypothesis histories of repeated sends per message class; independent implicit-VR-LE reader as oracle',
            'For each of the 23 classes, generated histories of 1-4 sends of the same object (fields changed, '
            'data set attached/removed, decoded-origin objects) go through the real Association.send; each '
            'command set is parsed by an independent reader: group length, ascending tags, even lengths, '
            'command field code, data-set-type flag versus data fragments actually sent. Data sets in file-like objects handed over at their end / still empty and rewound before the send; copies of messages.',
            'Trusts vf/refcmd.py (command dictionary from PS3.7 Annex E).', 'refcmd', 'DESIGN.md#C08'),
    'C09': (True, 'exploration',
            'exhaustive configuration x request enumeration + Hypothesis on a scripted provider; wire-level oracle via the reference parser',
            'All 128 entity configurations (served-class subsets x supported-syntax subsets; the entity optionally also a service user of the other / of all classes; role-selection items in half of the requests) x all requests of <=1 '
            '(quick) / <=2 (thorough, 3.3M) contexts over all 40 ordered syntax lists, and generated requests with '
            'up to 8 contexts, go through the real AssociationAcceptor.handle(); the A-ASSOCIATE-AC bytes are '
            'checked item by item, the three internal tables must agree with them, and routing is probed with a '
            'message per accepted context and one on a non-accepted id.',
            'Provider replaced by a scripted fake (vf/fakedul.py); requests are decoded from reference-encoded '
            'bytes; any non-zero result counts as rejection.', 'fakedul', 'DESIGN.md#C09'),
    'C10': (True, 'exploration',
            'exhaustive boundary grid (12 x 12 announced values x 2 roles x 6 message sizes) + Hypothesis; observation of every P-DATA-TF produced after real negotiation',
            'For every pair (own maximum, peer-announced maximum) incl. 0 on either side, both roles negotiate '
            'through the real ACSE code and then send messages below, at and above the implied fragment size; '
            'every P-DATA-TF must respect the peer limit, nothing may be lost, something must be sent, and the '
            'announced value must be the own limit or less. Data-less messages with command sets longer than a fragment; Maximum Length sub-item first / last / in the middle of the user information.', 'Scripted provider; data capped at 300 kB.',
            'fakedul', 'DESIGN.md#C10'),
    'C11': (True, 'exploration',
            'Hypothesis over add_scu/add_scp sequences and reply patterns + exhaustive reply enumeration for small proposals; wire-level oracle',
            'Generated entity configurations (incl. overlapping class lists, supported_ts changed between calls, an earlier partly refused request, totals around/beyond 128 classes, '
            'and the own storage_scp of the library) request an association against a scripted peer whose reply '
            'mixes result codes 0-4 and syntax choices; the A-ASSOCIATE-RQ bytes, accepted-context tables and '
            'get_scu() for every configured and two foreign classes are checked.',
            'More than 128 classes: only a clean library error before anything is sent is accepted.',
            'fakedul', 'DESIGN.md#C11'),
    'C12': (True, 'exploration',
            'structure-aware mutation fuzzing + Hypothesis random streams on the simulated transport (thorough: atheris coverage-guided campaign); crash/hang/well-formed-output/idle/user-told oracle inside the target',
            'From 18 protocol-state prefixes (incl. an accepting user, half-received messages with the data set outstanding in memory / in a file, release collisions) the real provider loop is fed ~1100 structure-aware mutations of valid '
            'PDUs, 40 semantically hostile P-DATA streams and Hypothesis-generated mixes under varying '
            'segmentation, followed by the peer closing and ARTIM passing; the loop must return normally, never '
            'block, write only well-formed PDUs, end idle and closed, tell an engaged user, and answer certainly '
            'undecodable PDUs with A-ABORT. Bursts of 1500 / 5000 of the smallest PDUs there are, in every state. A third of the cases once more with a peer that is gone once its bytes are out: every write of the provider fails with ECONNRESET.',
            'Hang = structural (blocking recv with nothing scheduled, or 40000 scheduling points). Leniently '
            'accepted malformed PDUs are not violations. 4 GiB declared lengths are not streamed.',
            'simnet', 'DESIGN.md#C12'),
    'C13': (True, 'fault_enumeration',
            'exhaustive fault injection over a scenario corpus on the simulated transport: disconnect at every byte prefix, silence at every ARTIM arming point, kill/stop at every quiescent point',
            'For each of 19 conversations the peer disconnects after every byte prefix (with/without the next '
            'local step racing it); 13 silence points are checked just before and just after the ARTIM deadline '
            '(also with a chattering or stalling peer, and while another association is served in the same process); 40 / 1100 pipelined messages the local user never fetches followed by each ending; kill and stop() are injected at every quiescent point; '
            'Association.kill() for both stop() outcomes. The loop must return, end idle/closed, ARTIM stopped, '
            'and an engaged user must have been told. The peer\'s last PDU followed in the same burst by up to 200 kB, the peer never closing.',
            'Simulated time; exhaustive over the corpus of conversations, not over all conversations.',
            'simnet', 'DESIGN.md#C13'),
    'C14': (True, 'exploration',
            'enumeration of standard reject/abort values and event positions + Hypothesis over the byte ranges, on a scripted provider',
            'Every standard (result, source, reason) triple and abort (source, reason) pair, generated values over '
            '0-255, four positions of the event (before, between, inside a half-consumed C-FIND stream, during a '
            'multi-fragment C-STORE), eight ways of leaving request_association (normally, through Exceptions, a BaseException, an abandoned generator; also when the peer refused all or most contexts), raw-socket loopback peers incl. release with responses in flight: the PDUs handed to the provider '
            'and the exception type/fields seen by the caller are compared with what the other side did. One long-lived entity answers 300+ associations in a row (refused / served / aborted), each judged like the first. Loopback: an A-ABORT arriving while a 24 MiB C-STORE is being sent. A live association left through the error of a nested second association (refused / aborted / released by its own peer) must be aborted. Through the real provider loop on the simulated transport: an abort with (source, reason) requested while a message of 2-13 fragments is with the provider goes out with exactly those values, last.',
            'Scripted provider (vf/fakedul.py); what the provider itself does with these PDUs is C04/C05.',
            'fakedul', 'DESIGN.md#C14'),
    'C15': (True, 'exploration',
            'Hypothesis-generated data sets and configurations through the whole stack over real loopback TCP with real threads; end-to-end equality and file-integrity oracle',
            'Generated data sets (nested sequences, odd lengths, up to ~30 fragments), 3 transfer syntaxes, '
            'asymmetric maximum PDU lengths, memory/file sources, temp-file / in-memory / directory reception, all '
            'handler outcomes, repeated instance UIDs, files already present in the storage directory, different instances staged under one source file name: what the handler received must equal what was sent, the '
            'status must come back unchanged, and in the storage directory every instance must keep its own intact file.',
            'OS-chosen schedules (sampled); time-outs are inconclusive; equality by canonical re-encoding with pydicom. '
            'The deterministic counterpart of the data path is C06+C07+C10.', 'loopback', 'DESIGN.md#C15'),
    'C16': (True, 'exploration',
            'Hypothesis over match sequences, identifiers, transfer syntaxes and PDU sizes; provider and user side against independent codecs',
            'Generated match sequences (0-12, both pending codes) and identifiers run through qr_find_scp / '
            'modality_work_list_scp (responses read from wire bytes: count, order, statuses, identifiers, one '
            'final response without data set, query delivered unchanged) and through qr_find_scu / '
            'modality_work_list_scu / c_find() against a scripted peer (exact pairs in order, stop after the first '
            'non-pending status, receive() calls counted); handler failing mid-stream, query object re-used, C-ECHO between preparing and iterating, a second association alive meanwhile negotiated differently for the same class; pending statuses handed over as classified Status, plain code, Status of the bare code, library constant.',
            'Scripted provider; data sets compared by canonical re-encoding with pydicom.', 'fakedul', 'DESIGN.md#C16'),
    'C17': (True, 'exploration',
            'one Hypothesis search per provider callable (collect-then-shrink), reference-encoded requests, responses read from wire bytes',
            'verification_scp, storage_scp, qr_find_scp, modality_work_list_scp, qr_move_scp, StorageCommitment '
            'n_action (+ its N-EVENT-REPORT on the sub-association) and n_event_report are driven with generated '
            'message ids (16-bit boundaries enumerated), UIDs, context ids and handler outcomes incl. '
            'EventHandlingError; every response must be of the matching type, on the arrival context, with the '
            'message id of the request / SOP class / instance and the right status, and every request must be answered. A retry with the same Transaction UID after a commitment result that could not be reported. The C-STORE responses of the C-GET user (enumerated peer scripts, sub-operation requests also arriving on the other negotiated storage context).',
            'Where no failure status is documented for EventHandlingError any Failure-class status is accepted.',
            'fakedul', 'DESIGN.md#C17'),
    'C19': (True, 'exploration',
            'exhaustive outcome strings for 0-4 sub-operations + Hypothesis for longer ones and for C-GET peer scripts; wire-level oracle on both associations',
            'C-MOVE provider: all 3^n outcome strings for n<=4 and sampled n<=8, default handler; the destination '
            'association must see exactly the supplied instances once, in order, at the designated AE, and the '
            'primary association a pending response after every sub-operation with true counters, then exactly '
            'one final response. C-GET user: scripted peers interleaving stores and pending responses; one '
            'correlated C-STORE-RSP per request, each instance handed to the caller once and in order, iteration '
            'ends exactly at the final response; from the third instance on the peer may use the other negotiated storage context.',
            '"performed" = completed or completed+failed+warning; final C-MOVE status unconstrained.',
            'fakedul', 'DESIGN.md#C19'),
    'C20': (True, 'exploration',
            'loopback stress with N concurrent clients (sampled OS schedules) + Hypothesis-drawn deterministic interleavings of several acceptors under a baton scheduler (differential against solo runs)',
            'Part a: 4-32 client threads with their own titles, syntaxes, PDU sizes, class subsets and data, a third '
            'aborting mid-transfer, against one server over real TCP; every handler call must be attributable to the '
            'right association with the right context and content, survivors unaffected. Part b: 2-4 acceptor bodies '
            'sharing one AE run on scripted providers, interleaved at every provider send/receive in a '
            'Hypothesis-drawn (shrinkable, replayable) order; each must behave exactly as when run alone. '
            '_new_msg_id() is checked from 16 concurrent threads. Part c: codecs, fragmentation, group length and status classification in 8 threads under a 1 us switch interval against single-threaded results. Part d: one requesting entity with 2-4 associations open at once on scripted peers refusing with codes 1-4: each proposes all configured classes and uses exactly what its own peer accepted. Part f: one long-lived entity on which 300 associations in a row fail in each of 7 ways, an ordinary association after each run must be served; over real TCP, silent connections must not delay other associations; message IDs of c_find() calls from several threads; raw peers that vanish / abort in the middle of a C-STORE, after which ordinary associations store shorter instances on the same entity and must be handed exactly their own bytes.',
            'Races finer than provider primitives are only sampled (part a), not enumerated.',
            'loopback+fakedul', 'DESIGN.md#C20'),
    'C18': (True, 'exploration',
            'exhaustive enumeration against an independent status table + metamorphic precedence test',
            'All 65536 codes x 24 command choices are constructed and compared with a table '
            'transcribed from PS3.7/PS3.4; the domain is finite so the enumeration is complete. Registrations made after the codes were looked up, classification asked from two threads; the built-in registration run again, sequentially and in a thread while another classifies.',
            'Trusts the transcription of the status tables (DESIGN.md C18) and its tolerance for '
            'codes outside every service-specific table.', 'enumeration', 'DESIGN.md#C18'),
}

PENDING_REASON = 'check not built yet in this session (planned, see DESIGN.md section 9)'


def main():
    props = [json.loads(l)['id'] for l in open(os.path.join(VERIF, 'properties.jsonl'))]
    checks = []
    na = []
    for pid in props:
        ent = CHECKS.get(pid)
        if not ent or not ent[0]:
            na.append({'property_id': pid, 'reason': ent[4] if ent else PENDING_REASON})
            continue
        _, cat, tech, text, note, engine, ref = ent
        checks.append({
            'property_id': pid,
            'quick_cmd': './check %s quick' % pid,
            'thorough_cmd': './check %s thorough' % pid,
            'evidence_file': 'evidence/%s.json' % pid,
            'replay_cmd_template': './check %s --replay {path}' % pid,
            'engine': engine,
            'level_claimed': {'category': cat, 'text': text, 'design_ref': ref},
            'level_note': note,
            'technique': tech,
        })
    man = {
        'version': 1,
        'setup_cmd': './setup.sh',
        'hooks': {
            'guard': 'PYNETDICOM2_VERIF',
            'enable': 'none needed: the checks substitute module-level collaborators '
                      '(select, time, socket, DULServiceProvider) from outside; no source hooks',
            'baseline_off_cmd': 'cd /repo && /venv/bin/python -m pytest -q -p no:cacheprovider '
                                'tests/test_pdu.py tests/test_dimsemessages.py',
            'source_commits': [],
            'add_only': True,
        },
        'engines': ENGINES,
        'checks': checks,
        'not_applicable': na,
        'notes': 'Property-based testing / fuzzing only. ./check <ID> quick|thorough; exit 0 held, '
                 '1 VIOLATION, 2 harness error. Known findings: known_findings.json.',
    }
    with open(os.path.join(VERIF, 'MANIFEST.json'), 'w') as fh:
        json.dump(man, fh, indent=1)
    try:
        import jsonschema
        jsonschema.validate(man, json.load(open('/root/.vp/MANIFEST.schema.json')))
        print('MANIFEST.json valid: %d checks, %d not_applicable' % (len(checks), len(na)))
    except ImportError:
        print('MANIFEST.json written (jsonschema not available to validate)')


ENGINES = [
    {'name': 'refpdu', 'path': 'vf/refpdu.py', 'serves_properties': ['C02', 'C03', 'C04', 'C05', 'C09', 'C10', 'C11', 'C12', 'C13', 'C14'],
     'kind_free_text': 'independent strict PDU reference encoder/parser (PS3.8 9.3, PS3.7 Annex D)'},
    {'name': 'simnet', 'path': 'vf/simnet.py', 'serves_properties': ['C03', 'C04', 'C05', 'C12', 'C13', 'C14'],
     'kind_free_text': 'real DULServiceProvider.run() executed in the calling thread against simulated socket/select(+poll)/clock (time, monotonic)/user queue; timer observed through its public methods; scripted scenarios incl. write faults, stalls, livelock detection'},
    {'name': 'ulmodel', 'path': 'vf/ulmodel.py', 'serves_properties': ['C04', 'C05', 'C12', 'C13'],
     'kind_free_text': 'executable PS3.8 Table 9-10 protocol machine (123 cells, 28 actions) with ARTIM, transport and reassembly tracking'},
    {'name': 'loopback', 'path': 'vf/loopback.py', 'serves_properties': ['C15', 'C20'],
     'kind_free_text': 'real loopback TCP on ephemeral ports with real threads; per-case temp dirs; time-outs are inconclusive'},
    {'name': 'fakedul', 'path': 'vf/fakedul.py', 'serves_properties': ['C09', 'C10', 'C11', 'C14', 'C16', 'C17', 'C19', 'C20'],
     'kind_free_text': 'scripted primitive-level provider replacing DULServiceProvider under the real ACSE/service code; wire observed via reference codecs'},
    {'name': 'refcmd', 'path': 'vf/refcmd.py', 'serves_properties': ['C06', 'C07', 'C08', 'C16', 'C17', 'C19'],
     'kind_free_text': 'independent implicit-VR-LE command-set reader/writer and PS3.7 message table; vf/dimsegen.py builds messages and reference fragments'},
    {'name': 'pdugen', 'path': 'vf/pdugen.py', 'serves_properties': ['C01', 'C02', 'C04', 'C05', 'C12'],
     'kind_free_text': 'Hypothesis strategies for plain-data PDU specs; spec <-> library object bridge'},
    {'name': 'runner', 'path': 'vf/common.py', 'serves_properties': [],
     'kind_free_text': 'case accounting, Hypothesis collect-then-shrink driver, ambient conditions (DEBUG logging, library warnings as errors, a second pass under python -O), evidence, replay, known findings'},
]

if __name__ == '__main__':
    sys.exit(main())
