"""Sensitivity validation: apply small source mutations to a scratch copy of the repository and
confirm the property's quick check reports a violation (python -m vf.tools.mutants [ids..]).

Each mutant: (id, [properties expected to catch it], file, old text, new text).
The scratch copy lives under $TMPDIR and is removed after each mutant.
"""
import os
import shutil
import subprocess
import sys
import tempfile
import time

VERIF = os.path.dirname(os.path.dirname(os.path.dirname(os.path.abspath(__file__))))
REPO = '/repo'

from .mutant_list import MUTANTS  # noqa


def run_one(mid, props, fname, old, new, tier='quick'):
    tmp = tempfile.mkdtemp(prefix='vfmut_')
    try:
        shutil.copytree(os.path.join(REPO, 'pynetdicom2'), os.path.join(tmp, 'pynetdicom2'))
        path = os.path.join(tmp, fname)
        src = open(path).read()
        if src.count(old) != 1:
            return {p: 'PATCH-ERROR(count=%d)' % src.count(old) for p in props}
        open(path, 'w').write(src.replace(old, new))
        out = {}
        for prop in props:
            env = dict(os.environ, VERIF_REPO=tmp, VERIF_OUT=os.path.join(tmp, 'out'),
                       PYTHONHASHSEED='0', PYTHONDONTWRITEBYTECODE='1')
            t0 = time.time()
            res = subprocess.run(['/venv/bin/python', '-m', 'vf.run', prop, '--tier', tier],
                                 cwd=VERIF, env=env, capture_output=True, text=True)
            verdict = {0: 'SURVIVED', 1: 'killed', 2: 'HARNESS-ERROR'}.get(res.returncode,
                                                                         'rc=%d' % res.returncode)
            keys = [l.strip() for l in res.stdout.splitlines() if l.strip().startswith('key=')]
            out[prop] = '%s (%.0fs) %s' % (verdict, time.time() - t0,
                                           keys[0][:110] if keys else '')
            if res.returncode == 2:
                out[prop] += ' ' + res.stderr.strip().splitlines()[-1][:200] if res.stderr.strip() else ''
        return out
    finally:
        shutil.rmtree(tmp, ignore_errors=True)


def main(argv):
    want = set(argv)
    rows = []
    for mid, props, fname, old, new in MUTANTS:
        if want and mid not in want and not (want & set(props)):
            continue
        props_run = [p for p in props if not want or mid in want or p in want]
        res = run_one(mid, props_run, fname, old, new)
        for prop, verdict in res.items():
            rows.append((mid, prop, verdict))
            print('%-28s %-4s %s' % (mid, prop, verdict), flush=True)
    bad = [r for r in rows if not r[2].startswith('killed')]
    print('%d mutant runs, %d not killed' % (len(rows), len(bad)))
    return 1 if bad else 0


if __name__ == '__main__':
    sys.exit(main(sys.argv[1:]))
