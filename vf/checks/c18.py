"""C18 - status codes are classified totally and consistently (exhaustive enumeration).

Oracle: an independent table transcribed from PS3.7 Annex C / PS3.4 (Storage C.4.1? no: B.2.3,
Query/Retrieve C.4.1-C.4.3), see DESIGN.md section 4, C18.
"""
from __future__ import annotations

import os
import subprocess
import sys

from ..common import Violation, HarnessError, REPO, VERIF_DIR, quiet_warnings

LEVEL = 'exploration'

C_STORE_RSP, C_FIND_RSP, C_GET_RSP, C_MOVE_RSP = 0x8001, 0x8020, 0x8010, 0x8021


def specific_class(cmd_field, code):
    """Class the standard's service-specific tables give `code` for this response, or None."""
    if cmd_field == C_STORE_RSP:
        if 0xA700 <= code <= 0xA7FF or 0xA900 <= code <= 0xA9FF or 0xC000 <= code <= 0xCFFF:
            return 'Failure'
        if code in (0xB000, 0xB006, 0xB007):
            return 'Warning'
    elif cmd_field == C_FIND_RSP:
        if code in (0xA700, 0xA900) or 0xC000 <= code <= 0xCFFF:
            return 'Failure'
        if code == 0xFE00:
            return 'Cancel'
        if code in (0xFF00, 0xFF01):
            return 'Pending'
    elif cmd_field == C_GET_RSP:
        if code in (0xA701, 0xA702, 0xA900) or 0xC000 <= code <= 0xCFFF:
            return 'Failure'
        if code == 0xB000:
            return 'Warning'
        if code == 0xFE00:
            return 'Cancel'
        if code == 0xFF00:
            return 'Pending'
    elif cmd_field == C_MOVE_RSP:
        if code in (0xA701, 0xA702, 0xA801, 0xA900) or 0xC000 <= code <= 0xCFFF \
                or 0xAA00 <= code <= 0xAA04:
            return 'Failure'
        if code == 0xB000:
            return 'Warning'
        if code == 0xFE00:
            return 'Cancel'
        if code == 0xFF00:
            return 'Pending'
    return None


def general_tolerated(code):
    """Classes accepted for a code that is in no service-specific table of the command."""
    ok = {'Failure'}
    # PS3.7 Annex C general classes, tolerated (a maintainer may teach the general table these)
    if code in (0x0001, 0x0107, 0x0116) or 0xB000 <= code <= 0xBFFF:
        ok.add('Warning')
    if code == 0xFE00:
        ok.add('Cancel')
    if code in (0xFF00, 0xFF01):
        ok.add('Pending')
    return ok


# General failure codes of PS3.7 Annex C (used only for the non-triviality rule)
GENERAL_CODES = {0x0105, 0x0106, 0x0107, 0x0110, 0x0111, 0x0112, 0x0113, 0x0114, 0x0115, 0x0116,
                 0x0117, 0x0118, 0x0119, 0x0120, 0x0121, 0x0122, 0x0123, 0x0124, 0x0210, 0x0211,
                 0x0212, 0x0213, 0x0000, 0xFE00, 0xFF00, 0xFF01, 0x0001}

FLAGS = (('is_success', 'Success'), ('is_pending', 'Pending'), ('is_failure', 'Failure'),
         ('is_warning', 'Warning'), ('is_cancel', 'Cancel'))


def check_one(statuses, cmd, code):
    """Raises Violation if Status(code, cmd) is mis-classified."""
    cf = cmd.command_field if cmd is not None else None
    name = cmd.__name__ if cmd is not None else 'None'
    case = {'command_field': cf, 'command': name, 'code': code}
    try:
        st = statuses.Status(code, cmd)
    except Exception as exc:
        raise Violation('C18:construct:%s' % type(exc).__name__,
                        'Status(0x%04X, %s) raised %r' % (code, name, exc), case)
    true_flags = [typ for attr, typ in FLAGS if getattr(st, attr) is True]
    if len(true_flags) != 1 or st.status_type != true_flags[0]:
        raise Violation('C18:flags', 'Status(0x%04X, %s): flags %r, status_type %r'
                        % (code, name, true_flags, st.status_type), case)
    got = true_flags[0]
    if int(st) != code:
        raise Violation('C18:int', 'int(Status(0x%04X, %s)) == %r' % (code, name, int(st)), case)
    if code == 0:
        exp = {'Success'}
    else:
        sp = specific_class(cf, code)
        exp = {sp} if sp else general_tolerated(code)
    if cmd is not None and code != 0 and specific_class(cf, code) is None:
        # no service-specific entry for this command: the class can only come from the general table, so it
        # must be what the code gets without any command (a service's specific classes must not leak into
        # another service)
        general = statuses.Status(code).status_type
        if got != general:
            raise Violation('C18:leak:%s->%s' % (general, got),
                            'Status(0x%04X, %s) is %s although this command has no specific entry for the code and '
                            'the general classification is %s' % (code, name, got, general), case)
    if got not in exp:
        sp = specific_class(cf, code)
        bucket = 'specific' if sp else 'general'
        raise Violation('C18:class:%s:%s->%s' % (bucket, '|'.join(sorted(exp)), got),
                        'Status(0x%04X, %s) classified %s, expected %s'
                        % (code, name, got, ' or '.join(sorted(exp))), case)


def message_classes():
    from pynetdicom2 import dimsemessages
    classes = sorted(set(dimsemessages.MESSAGE_TYPE.values()), key=lambda c: c.command_field)
    if len(classes) != 23:
        raise HarnessError('expected 23 message classes, found %d' % len(classes))
    return classes


METAMORPHIC = r'''
import sys
sys.dont_write_bytecode = True
sys.path.insert(0, %(repo)r)
from pynetdicom2 import statuses, dimsemessages as d
bad = []
# FIRST thing in a fresh process (nothing has been looked up yet): a private code registered INSIDE each built-in
# service-specific range keeps its class whatever is looked up around it afterwards
probe = [(0xA910, d.CStoreRSPMessage, 0xA920), (0xC010, d.CFindRSPMessage, 0xC020), (0xC110, d.CMoveRSPMessage, 0xC120),
         (0xC210, d.CGetRSPMessage, 0xC220), (0xA750, d.CStoreRSPMessage, 0xA7F0)]
for code, cmd, neighbour in probe:
    statuses.add_status(code, 'Warning', 'private code inside a built-in range', command=cmd)
for code, cmd, neighbour in probe:
    first = statuses.Status(code, cmd).status_type
    statuses.Status(neighbour, cmd)
    statuses.Status(neighbour + 1, cmd)
    again = statuses.Status(code, cmd).status_type
    if first != 'Warning' or again != 'Warning':
        bad.append('per-command registration inside a built-in range: 0x{0:04X} for {1} is {2}, after looking up 0x{3:04X} it is {4}'.format(code, cmd.__name__, first, neighbour, again))
# a conflicting *general* registration must not override a service-specific class
pairs = [(0xFF00, d.CFindRSPMessage, 'Pending'), (0xFF01, d.CFindRSPMessage, 'Pending'),
         (0xFF00, d.CGetRSPMessage, 'Pending'), (0xFF00, d.CMoveRSPMessage, 'Pending'),
         (0xB000, d.CStoreRSPMessage, 'Warning'), (0xB007, d.CStoreRSPMessage, 'Warning'),
         (0xA700, d.CFindRSPMessage, 'Failure'), (0xC123, d.CStoreRSPMessage, 'Failure'),
         (0xA801, d.CMoveRSPMessage, 'Failure')]
# a service-specific registration made by the application is honoured for EVERY message class (also for those the
# library itself has no specific entries for), single codes and ranges, and stays out of the other classes
import inspect
classes = sorted({c for c in vars(d).values() if inspect.isclass(c) and getattr(c, 'command_field', None) is not None},
                 key=lambda c: (c.command_field, c.__name__))
# (a long-lived worker thread of the application classifies statuses too: it sees what the process has registered)
import threading
try:
    import queue
except ImportError:
    import Queue as queue
req, rsp = queue.Queue(), queue.Queue()
def worker():
    while True:
        item = req.get()
        if item is None:
            return
        rsp.put(statuses.Status(item[0], item[1]).status_type)
thread = threading.Thread(target=worker)
thread.daemon = True
thread.start()
def in_worker(code, cmd=None):
    req.put((code, cmd))
    return rsp.get(timeout=60)
def in_main(code, cmd=None):
    return statuses.Status(code, cmd).status_type
for i, cls_ in enumerate(classes):
    code = 0x6100 + 0x10 * i
    before = statuses.Status(code, cls_).status_type
    # every code involved has been looked up before (by the registering thread and by the worker), still unregistered
    for c_ in range(code, code + 6):
        for look in (in_main, in_worker):
            look(c_, cls_)
            look(c_)
    statuses.add_status(code, 'Warning', 'private warning', command=cls_)
    statuses.add_status(code + 1, 'Pending', 'private pending range', end=code + 4, command=cls_)
    want = ['Warning', 'Pending', 'Pending', 'Pending', 'Pending', before, before, before]
    for who, look in (('registering thread', in_main), ('another thread', in_worker)):
        got = [look(code, cls_), look(code + 1, cls_), look(code + 2, cls_), look(code + 3, cls_),
               look(code + 4, cls_), look(code + 5, cls_),
               look(code), look(code, classes[(i + 1) %% len(classes)])]
        if got != want:
            bad.append('per-command registration for {0}: 0x{1:04X}.. classified {2} by {4}, expected {3} (all codes had been looked up before the registration)'.format(cls_.__name__, code, got, want, who))
# general registrations (single code and range) made after the codes were looked up, seen from both threads
for look in (in_main, in_worker):
    for c_ in range(0x7100, 0x7108):
        look(c_)
        look(c_, d.CFindRSPMessage)
statuses.add_status(0x7100, 'Warning', 'private general warning')
statuses.add_status(0x7101, 'Pending', 'private general pending range', end=0x7106)
for who, look in (('registering thread', in_main), ('another thread', in_worker)):
    got = [look(c_) for c_ in range(0x7100, 0x7108)] + [look(0x7103, d.CFindRSPMessage)]
    want = ['Warning'] + ['Pending'] * 6 + ['Failure', 'Pending']
    if got != want:
        bad.append('per-command registration (general, after look-ups): 0x7100.. classified {0} by {1}, expected {2}'.format(got, who, want))
# the LAST registration counts, for every code it covers: a range, then one code inside it registered differently, then
# the very same range once more
for cmd_ in (None, d.CStoreRSPMessage, d.NActionRSPMessage):
    base = 0x7200 if cmd_ is None else 0x7300 + (0x40 if cmd_ is d.NActionRSPMessage else 0)
    kw_ = {} if cmd_ is None else {'command': cmd_}
    statuses.add_status(base, 'Warning', 'private range', end=base + 0x0F, **kw_)
    statuses.add_status(base + 5, 'Failure', 'one code of it, differently', **kw_)
    mid = in_main(base + 5, cmd_)
    statuses.add_status(base, 'Warning', 'private range', end=base + 0x0F, **kw_)
    got = [in_main(base + k_, cmd_) for k_ in (0, 4, 5, 6, 0x0F)] + [in_worker(base + 5, cmd_)]
    if mid != 'Failure' or got != ['Warning'] * 6:
        bad.append('per-command registration (range registered again after one of its codes was registered differently, command {0}): 0x{1:04X} was {2} in between, the range then classifies {3}'.format(getattr(cmd_, '__name__', None), base + 5, mid, got))
# a status type given as a str SUBCLASS (an enum member, say) is the same type name
class Kind(str):
    pass
for code, tname in ((0x7001, 'Pending'), (0x7002, 'Warning'), (0x7003, 'Cancel'), (0x7004, 'Success'), (0x7005, 'Failure')):
    statuses.add_status(code, Kind(tname), 'private code registered with a str subclass')
    st = statuses.Status(code)
    flags = [t for a, t in (('is_success', 'Success'), ('is_pending', 'Pending'), ('is_failure', 'Failure'),
                            ('is_warning', 'Warning'), ('is_cancel', 'Cancel')) if getattr(st, a) is True]
    if flags != [tname] or st.status_type != tname:
        bad.append('0x{0:04X} registered as {1} (str subclass): status_type {2!r}, flags {3!r}'.format(code, tname, st.status_type, flags))
for code, cmd, cls in pairs:
    other = 'Success' if cls != 'Success' else 'Failure'
    statuses.add_status(code, other, 'conflicting general entry')
    st = statuses.Status(code, cmd)
    if st.status_type != cls:
        bad.append('0x%%04X %%s: %%s after general registration of %%s' %% (code, cmd.__name__, st.status_type, other))
    if statuses.Status(code).status_type != other:
        bad.append('0x%%04X general registration not effective' %% code)
print('BAD:' + ';'.join(bad))
'''


REREGISTER = r'''
import sys, threading
sys.dont_write_bytecode = True
sys.path.insert(0, %(repo)r)
import warnings
warnings.simplefilter('ignore')
from pynetdicom2 import statuses, dimsemessages as d
cmds = [None] + [getattr(d, n) for n in sorted(dir(d)) if n.endswith('RSPMessage')]
codes = [0x0000, 0x0001, 0x0107, 0x0116, 0x0110, 0x0122, 0xA700, 0xA701, 0xA702, 0xA801, 0xA900, 0xAA00, 0xB000, 0xB006, 0xB007,
         0xC000, 0xC123, 0xCFFF, 0xFE00, 0xFF00, 0xFF01, 0x1234]
def table():
    return {(getattr(c, '__name__', None), code): statuses.Status(code, c).status_type for c in cmds for code in codes}
base = table()
bad = []
# (1) the library's own registration run again, sequentially: nothing changes
statuses.register_statuses()
if table() != base:
    bad.append('classification changed after register_statuses() was run a second time')
# (2) ... and while another thread classifies (1 microsecond switch interval)
sys.setswitchinterval(1e-6)
done = threading.Event()
errors = []
def again():
    try:
        for _ in range(150):
            statuses.register_statuses()
    except Exception as exc:
        errors.append(repr(exc))
    finally:
        done.set()
t = threading.Thread(target=again)
t.start()
n = 0
while not done.is_set() or n < 3:
    now = table()
    n += 1
    if now != base:
        k = sorted((x for x in base if now.get(x) != base[x]), key=lambda x: (str(x[0]), x[1]))[0]
        bad.append('while register_statuses() runs again in another thread: Status(0x%%04X, %%s) is %%s, was %%s' %% (k[1], k[0], now.get(k), base[k]))
        break
t.join()
if errors:
    bad.append('register_statuses() run again raised ' + errors[0])
print('ROUNDS:%%d' %% n)
print('BAD:' + ';'.join(bad))
'''


def reregistration(ctx):
    """The registration of the built-in table is a public function: running it again - sequentially, and in one thread
    while another classifies - leaves every classification as it was."""
    code = REREGISTER % {'repo': REPO}
    res = subprocess.run([sys.executable, '-c', code], capture_output=True, text=True, env=dict(os.environ, PYTHONHASHSEED='0'),
                         cwd=VERIF_DIR)
    line = [l for l in res.stdout.splitlines() if l.startswith('BAD:')]
    if res.returncode != 0 or not line:
        raise HarnessError('C18 re-registration subprocess failed: %s %s' % (res.stdout, res.stderr))
    rounds = [int(l[7:]) for l in res.stdout.splitlines() if l.startswith('ROUNDS:')]
    ctx.case(('reregistration',), True, labels=('re-registration while classifying',),
             sample={'re-registration': 'register_statuses() x150 in a thread, %d full classification rounds meanwhile' % (rounds[0] if rounds else 0)})
    if line[0][4:]:
        ctx.fail('C18:reregistration', line[0][4:], {'kind': 'reregistration'})


def metamorphic(ctx):
    code = METAMORPHIC % {'repo': REPO}
    env = dict(os.environ, PYTHONHASHSEED='0')
    res = subprocess.run([sys.executable, '-c', code], capture_output=True, text=True, env=env,
                         cwd=VERIF_DIR)
    line = [l for l in res.stdout.splitlines() if l.startswith('BAD:')]
    if res.returncode != 0 or not line:
        raise HarnessError('C18 metamorphic subprocess failed: %s %s' % (res.stdout, res.stderr))
    ctx.case(('metamorphic', 'precedence'), True, labels=('metamorphic-precedence',),
             sample={'metamorphic': 'general registration conflicting with 9 service-specific codes'})
    bad = line[0][4:]
    if bad and 'per-command registration' in bad:
        ctx.fail('C18:add-status-command', 'a status registered for one command is not classified as registered: ' + bad,
                 {'kind': 'metamorphic'})
    elif bad and 'str subclass' in bad:
        ctx.fail('C18:status-type-subclass', 'a status registered with a str-subclass type name is classified inconsistently: ' + bad,
                 {'kind': 'metamorphic'})
    elif bad:
        ctx.fail('C18:precedence', 'service-specific class lost to a general registration: ' + bad,
                 {'kind': 'metamorphic'})


def run(ctx):
    import warnings
    quiet_warnings()
    from pynetdicom2 import statuses
    ctx.rule = ('exhaustive product of all 65536 codes x (23 message classes + None); a case is '
                'non-trivial when the code is 0, a PS3.7 Annex C general code, or lies in a '
                'service-specific table of the command; distinct by (command field, code); plus, in a fresh process: registrations (single code and range, per command and general) before any look-up and after every code involved was looked up, classification asked from the registering thread and from a long-lived worker thread')
    ctx.exhaustive = True
    ctx.assumptions = [
        'reference table transcribed from PS3.7 Annex C and PS3.4 B.2.3 / C.4.1-C.4.3',
        'codes outside every table may be Failure, or the class PS3.7 assigns by pattern '
        '(Warning for 0001/0107/0116/Bxxx, Cancel FE00, Pending FF00/FF01)',
        'a code without a service-specific entry for the command must get the same class as without a command',
        'a copy / deep copy / pickle round trip of a Status classifies like the original',
        'the command may be given as the response class, an instance of it or a subclass: same classification',
        'classification is a function of (code, command) only: also checked in code-major order and right after a lookup of the same code for another command']
    cmds = [None] + message_classes()
    for cmd in cmds:
        cf = cmd.command_field if cmd is not None else None
        name = cmd.__name__ if cmd is not None else 'None'
        nt = 0
        for code in range(0x10000):
            try:
                check_one(statuses, cmd, code)
            except Violation as v:
                ctx.fail(v.key, v.what, v.case)
            if code in GENERAL_CODES or specific_class(cf, code) is not None:
                nt += 1
                ctx.nontrivial.add('%s:%d' % (cf, code))
        ctx.evaluations += 0x10000
        ctx.label('cmd=%s' % name, 0x10000)
        ctx.label('nontrivial', nt)
    for cmd, code in ((cmds[1], 0), (None, 0x0110)):
        st = statuses.Status(code, cmd)
        ctx.samples.append({'command': getattr(cmd, '__name__', None), 'code': code,
                            'status_type': st.status_type})
    from pynetdicom2 import dimsemessages as d
    for cmd, code in ((d.CFindRSPMessage, 0xFF01), (d.CFindRSPMessage, 0xFE00),
                      (d.CStoreRSPMessage, 0xB007), (d.CMoveRSPMessage, 0xAA03),
                      (d.CGetRSPMessage, 0x1234)):
        st = statuses.Status(code, cmd)
        ctx.samples.append({'command': cmd.__name__, 'code': code, 'status_type': st.status_type})
    history(ctx, statuses, cmds)
    alt_forms(ctx, statuses, cmds)
    copies(ctx, statuses, cmds)
    metamorphic(ctx)
    reregistration(ctx)


def history(ctx, statuses, cmds):
    """Classification must not depend on what was classified before: code-major sweeps, and every code that
    has a service-specific class looked up right after the same code was looked up without / with another command."""
    n = 0
    for code in list(range(0, 0x10000, 257)) + sorted(GENERAL_CODES) + [0xA700, 0xA701, 0xA801, 0xAA02, 0xB000, 0xB006, 0xB007,
                                                                        0xC000, 0xCFFF, 0xFE00, 0xFF00, 0xFF01]:
        for cmd in cmds:                       # code-major order
            n += 1
            try:
                check_one(statuses, cmd, code)
            except Violation as v:
                v.case['order'] = 'code-major'
                ctx.fail(v.key + ':history', v.what + ' (code-major sweep)', v.case)
    owners = [c for c in cmds if c is not None and c.command_field in (C_STORE_RSP, C_FIND_RSP, C_GET_RSP, C_MOVE_RSP)]
    for cmd in owners:
        for code in range(0x10000):
            if specific_class(cmd.command_field, code) is None:
                continue
            for before in (None, cmds[1], cmds[-1]) + tuple(o for o in owners if o is not cmd):
                n += 1
                statuses.Status(code, before)
                try:
                    check_one(statuses, cmd, code)
                except Violation as v:
                    v.case['before'] = getattr(before, '__name__', None)
                    ctx.fail('C18:history-dependent', v.what + ' when constructed right after Status(0x%04X, %s)'
                             % (code, getattr(before, '__name__', None)), v.case)
    ctx.evaluations += n
    ctx.label('history-order', n)


def alt_forms(ctx, statuses, cmds):
    """The `command` argument names a DIMSE command: the library's response class, an instance of it (the message
    the status came with) and an application subclass all name the same command, so they classify alike."""
    n = 0
    for cmd in cmds:
        if cmd is None:
            continue
        sub = type('App' + cmd.__name__, (cmd,), {})
        forms = (('instance', cmd()), ('subclass', sub), ('subclass instance', sub()))
        cf = cmd.command_field
        codes = [c for c in range(0x10000) if specific_class(cf, c) is not None] if ctx.thorough or \
            cf in (C_STORE_RSP, C_FIND_RSP, C_GET_RSP, C_MOVE_RSP) else []
        codes = sorted(set(codes) | GENERAL_CODES | set(range(0, 0x10000, 1021)))
        for code in codes:
            want = statuses.Status(code, cmd).status_type
            for fname, form in forms:
                n += 1
                try:
                    got = statuses.Status(code, form).status_type
                except Exception as exc:
                    ctx.fail('C18:alt-form:exception:%s' % type(exc).__name__, 'Status(0x%04X, <%s of %s>) raised %r'
                             % (code, fname, cmd.__name__, exc), {'kind': 'alt-form', 'command': cmd.__name__, 'code': code, 'form': fname})
                    continue
                if got != want:
                    ctx.fail('C18:alt-form:%s' % fname.replace(' ', '-'), 'Status(0x%04X, <%s of %s>) is %s, but %s for the class itself'
                             % (code, fname, cmd.__name__, got, want), {'kind': 'alt-form', 'command': cmd.__name__, 'code': code, 'form': fname})
    ctx.evaluations += n
    ctx.label('alt-form-of-command', n)


def copies(ctx, statuses, cmds):
    """A Status is a value: a copy of it (copy, deepcopy, pickle round trip - what happens when results are put in
    records, queues or sent to another process) says what the original says."""
    import copy
    import pickle
    n = 0
    ways = (('copy', copy.copy), ('deepcopy', copy.deepcopy), ('pickle', lambda x: pickle.loads(pickle.dumps(x))),
            ('pickle-protocol-2', lambda x: pickle.loads(pickle.dumps(x, 2))))
    for cmd in cmds:
        cf = cmd.command_field if cmd is not None else None
        codes = sorted({c for c in range(0x10000) if specific_class(cf, c) is not None and (c & 0xFF) in (0, 1, 6, 7, 0xFF)} |
                       GENERAL_CODES | {0x1234})
        for code in codes:
            st = statuses.Status(code, cmd)
            want = (st.status_type, int(st), st.is_pending, st.is_failure, st.is_warning, st.is_cancel, st.is_success)
            for wname, fn in ways:
                n += 1
                case = {'kind': 'copy', 'command': getattr(cmd, '__name__', None), 'code': code, 'way': wname}
                try:
                    c2 = fn(st)
                    got = (c2.status_type, int(c2), c2.is_pending, c2.is_failure, c2.is_warning, c2.is_cancel, c2.is_success)
                except Exception as exc:
                    ctx.fail('C18:copy:exception:%s' % wname, '%s of Status(0x%04X, %s) raised %r'
                             % (wname, code, getattr(cmd, '__name__', None), exc), case)
                    continue
                if got != want:
                    ctx.fail('C18:copy:%s' % wname, '%s of Status(0x%04X, %s) is %s / %04X, the original %s / %04X'
                             % (wname, code, getattr(cmd, '__name__', None), got[0], got[1], want[0], want[1]), case)
    ctx.evaluations += n
    ctx.label('copies', n)


def replay(case):
    from pynetdicom2 import statuses, dimsemessages
    if case.get('kind') == 'metamorphic':
        from ..common import Ctx
        c = Ctx('C18', 'quick', 1)
        metamorphic(c)
        for key, ent in c.failures.items():
            raise Violation(key, ent['what'], ent['case'])
        return
    if case.get('kind') == 'reregistration':
        from ..common import Ctx
        c = Ctx('C18', 'quick', 1)
        reregistration(c)
        for key, ent in c.failures.items():
            raise Violation(key, ent['what'], ent['case'])
        return
    if case.get('kind') == 'copy':
        from ..common import Ctx
        c = Ctx('C18', 'quick', 1)
        copies(c, statuses, [getattr(dimsemessages, case['command']) if case['command'] else None])
        for key, ent in c.failures.items():
            raise Violation(key, ent['what'], ent['case'])
        return
    if case.get('kind') == 'alt-form':
        cmd = getattr(dimsemessages, case['command'])
        sub = type('App' + cmd.__name__, (cmd,), {})
        form = {'instance': cmd(), 'subclass': sub, 'subclass instance': sub()}[case['form']]
        want, got = statuses.Status(case['code'], cmd).status_type, statuses.Status(case['code'], form).status_type
        if got != want:
            raise Violation('C18:alt-form', 'Status(0x%04X, <%s of %s>) is %s, but %s for the class itself'
                            % (case['code'], case['form'], case['command'], got, want), case)
        return
    cmd = None
    if case['command_field'] is not None:
        cmd = dimsemessages.MESSAGE_TYPE[case['command_field']]
    if 'before' in case:
        before = getattr(dimsemessages, case['before']) if case['before'] else None
        statuses.Status(case['code'], before)
    check_one(statuses, cmd, case['code'])
