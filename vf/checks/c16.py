"""C16 - C-FIND returns exactly the matches the SCP produced, in order, then stops."""
from __future__ import annotations

import contextlib
import warnings

from hypothesis import strategies as st

from .. import fakedul as fd, refcmd, svc
from ..common import Violation, HarnessError, hyp_search, parallel, lib_frame, quiet_warnings
from .c17 import alias

LEVEL = 'exploration'
PROP = 'C16'
TSS = [svc.IMPLICIT, svc.EXPLICIT, svc.BIG]

names = st.text('ABCDEFGHIJKLMNOPQRSTUVWXYZ^ ', min_size=0, max_size=30).map(lambda s: s.strip())
ids_ = st.text('0123456789ABCDEF', min_size=0, max_size=16)


@st.composite
def dataset_spec(draw):
    """Plain-data description of a small identifier: dict keyword -> value (odd lengths included)."""
    d = {}
    if draw(st.booleans()):
        d['PatientName'] = draw(names)
    if draw(st.booleans()):
        d['PatientID'] = draw(ids_)
    if draw(st.booleans()):
        d['StudyInstanceUID'] = '1.2.3.' + str(draw(st.integers(0, 10 ** 9)))
    if draw(st.booleans()):
        d['NumberOfStudyRelatedInstances'] = draw(st.integers(0, 99999))
    if draw(st.booleans()):
        d['StudyDescription'] = draw(names) * draw(st.integers(1, 8))
    d['QueryRetrieveLevel'] = draw(st.sampled_from(['PATIENT', 'STUDY']))
    return d


def to_ds(spec):
    return svc.simple_ds(**spec)


def to_file_ds(spec):
    """The same identifier as the application often has it: a FileDataset, i.e. what dcmread() returns for a
    query template or a stored record (preamble and file meta information attached).  It IS a Dataset."""
    import pydicom
    fm = pydicom.dataset.FileMetaDataset()
    fm.MediaStorageSOPClassUID = svc.SC_STORAGE
    fm.MediaStorageSOPInstanceUID = '1.2.3.4.5'
    fm.TransferSyntaxUID = svc.EXPLICIT
    fds = pydicom.dataset.FileDataset('template.dcm', to_ds(spec), file_meta=fm, preamble=b'\0' * 128)
    fds.is_implicit_VR, fds.is_little_endian = False, True
    return fds


def scp_case(value, lazy=False, fail_after=None, reuse=False):
    """reuse: the handler does not build new data sets but fills in the query object it was handed (as the standard
    describes matching: the keys of the request, filled in) and yields that same object for every match."""
    service_name, sop, ts_i, max_pdu, query, matches, msg_id, pc_id = value
    if fail_after is not None:
        matches = matches[:fail_after]
    if reuse:
        merged, acc = [], dict(query)
        for m, code in matches:
            acc = dict(acc, **m)
            merged.append((dict(acc), code))
        fills, matches = matches, merged
    from pynetdicom2 import sopclass, statuses, dimsemessages
    case = {'side': 'scp', 'service': service_name, 'sop': sop, 'ts': ts_i, 'max_pdu': max_pdu, 'query': query,
            'matches': matches, 'msg_id': msg_id, 'pc_id': pc_id, 'lazy': lazy, 'fail_after': fail_after, 'reuse': reuse}
    if reuse:
        case['fills'] = fills
    ts = TSS[ts_i]
    seen = []

    def status_obj(code, k):
        # the forms in which an application hands a pending status over: classified for C-FIND, a plain code, a Status
        # built from the bare code (no command), the library's own constant
        form = (k + msg_id + len(matches)) % 4
        if form == 1:
            return code
        if form == 2:
            return statuses.Status(code)
        if form == 3:
            return {0xFF00: statuses.C_FIND_PENDING, 0xFF01: statuses.C_FIND_PENDING_WARNING}.get(
                code, statuses.Status(code, dimsemessages.CFindRSPMessage))
        return statuses.Status(code, dimsemessages.CFindRSPMessage)

    def on_find(ctx, ds):
        seen.append((tuple(ctx), ds))

        def gen():
            if reuse:
                for m, code in fills:
                    for kw, v in m.items():
                        setattr(ds, kw, v)
                    yield ds, status_obj(code, len(seen))
                return
            for k, (m, code) in enumerate(matches):
                yield (to_file_ds(m) if (k + msg_id) % 3 == 0 else to_ds(m)), status_obj(code, k)
            if fail_after is not None:
                from pynetdicom2 import exceptions
                raise exceptions.EventHandlingError('handler fails after %d matches' % len(matches))
        return gen()
    ae = svc.make_server({'on_receive_find': on_find}, [alias(getattr(sopclass, service_name), [sop])],
                         ts=[ts], max_pdu=max_pdu)
    req = {0x0002: sop, 0x0100: 0x0020, 0x0110: msg_id, 0x0700: 0}
    try:
        acc, fac, exc = fd.run_acceptor(ae, [svc.primary_plan([(pc_id, sop)], [(req, svc.enc_ds(to_ds(query), ts), pc_id)],
                                                              ts=ts, max_len=max_pdu)], lazy=lazy)
    finally:
        ae.server_close()
    if exc is not None:
        raise Violation('%s:scp:exception:%s' % (PROP, lib_frame(exc)), '%s raised %r' % (service_name, exc), case)
    if len(seen) != 1 or not svc.ds_equal(seen[0][1], to_ds(matches[-1][0] if reuse and matches else query)):
        raise Violation('%s:scp:query' % PROP, 'handler received %d calls / a query differing from the one sent' % len(seen), case)
    if (seen[0][0][0], str(seen[0][0][1]), str(seen[0][0][2])) != (pc_id, sop, ts):
        raise Violation('%s:scp:context' % PROP, 'handler context %r' % (seen[0][0],), case)
    rsps = fac.instances[0].sent_msgs()
    if len(rsps) != len(matches) + 1:
        raise Violation('%s:scp:count' % PROP, '%d matches, %d responses (statuses %r)'
                        % (len(matches), len(rsps), [r['fields'].get(0x0900) for r in rsps]), case)
    for i, ((m, code), r) in enumerate(zip(matches, rsps)):
        svc.check_response(PROP, req, r, pc_id, lambda s, c=code: s == c, case, what='match %d: ' % (i + 1))
        if r['data'] is None or not svc.wire_ds_equal(r['data'], ts, to_ds(m)):
            raise Violation('%s:scp:identifier' % PROP, 'match %d: identifier on the wire differs from the one supplied' % (i + 1), case)
        if r['fields'].get(0x0800) == refcmd.NO_DATASET:
            raise Violation('%s:scp:dataset-flag' % PROP, 'match %d flagged as having no data set' % (i + 1), case)
        if max_pdu and max(r['pdu_lengths']) > max_pdu:
            raise Violation('%s:scp:too-long' % PROP, 'P-DATA-TF of %d bytes, limit %d' % (max(r['pdu_lengths']), max_pdu), case)
    last = rsps[-1]
    if fail_after is None:
        svc.check_response(PROP, req, last, pc_id, lambda s: isinstance(s, int) and s not in (0xFF00, 0xFF01), case, what='final: ')
    else:
        from .c17 import is_failure_for
        svc.check_response(PROP, req, last, pc_id, is_failure_for(0x8020), case, what='final after handler failure: ')
    if last['data'] is not None or last['fields'].get(0x0800) != refcmd.NO_DATASET:
        raise Violation('%s:scp:final-dataset' % PROP, 'final response carries a data set / data-set flag %r'
                        % (last['fields'].get(0x0800),), case)
    return sum(1 for r in rsps if len(r['raws']) > 2)


def scu_case(value):
    service_name, sop, ts_i, query, matches, final, msg_id, via = value
    import pynetdicom2
    from pynetdicom2 import applicationentity, sopclass
    case = {'side': 'scu', 'service': service_name, 'sop': sop, 'ts': ts_i, 'query': query, 'matches': matches,
            'final': final, 'msg_id': msg_id, 'via': via}
    ts = TSS[ts_i]
    state = {}
    # a second association of the same process, alive at the same time, negotiated differently for the same class
    # (other transfer syntax, other context ID): what was negotiated there has no bearing on this one
    second = via == 'get_scu' and msg_id % 5 in (0, 3)
    ts_other = TSS[(ts_i + 1) % len(TSS)]
    state_other = {}

    def responder(dul, rec, ts=ts, state=state):
        if rec['kind'] == 'pdu':
            t = rec['spec'].get('t')
            if t == 1:
                pcs = [it for it in rec['spec']['items'] if it['t'] == 0x20]
                ans = [(it['id'], 0 if ts in [x['name'] for x in it['ts']] else 4, ts) for it in pcs]
                return [fd.incoming_pdu(fd.ac_spec(ans, 16384))]
            if t == 5:
                return [fd.incoming_pdu({'t': 6, 'r1': 0, 'r2': 0})]
            return []
        if rec['fields'].get(0x0100) == 0x0030:
            state['echo_seen_before_find'] = 'rqs' not in state
            f = {0x0002: rec['fields'].get(0x0002), 0x0100: 0x8030, 0x0120: rec['fields'].get(0x0110), 0x0900: 0}
            pc0 = rec['pc_ids'][0]
            return [lambda: fd.incoming_msg(dul, f, None, pc0)]
        if rec['fields'].get(0x0100) == 0x0020:
            state.setdefault('rqs', []).append(rec)
            state['rq'] = state['rqs'][0]
            pc = rec['pc_ids'][0]
            mid = rec['fields'].get(0x0110)
            out = []
            for m, code in matches:
                f = {0x0002: rec['fields'].get(0x0002), 0x0100: 0x8020, 0x0120: mid, 0x0900: code}
                out.append((lambda f=f, d=svc.enc_ds(to_ds(m), ts): fd.incoming_msg(dul, f, d, pc)))
            f = {0x0002: rec['fields'].get(0x0002), 0x0100: 0x8020, 0x0120: mid, 0x0900: final}
            out.append((lambda f=f: fd.incoming_msg(dul, f, None, pc)))
            return out
        return []
    def responder_other(dul, rec):
        return responder(dul, rec, ts_other, state_other)
    if msg_id % 3 == 2:
        # earlier in this process the same status codes were met elsewhere: without a command (as the module's
        # documentation shows), and in the responses of other services
        from pynetdicom2 import statuses, dimsemessages
        for code in (0xFF00, 0xFF01, final):
            statuses.Status(code)
            for other_cmd in (dimsemessages.CStoreRSPMessage, dimsemessages.CEchoRSPMessage, dimsemessages.CMoveRSPMessage):
                statuses.Status(code, other_cmd)
    fac = fd.Factory([lambda d: setattr(d, 'responder', responder), lambda d: setattr(d, 'responder', responder_other)])
    got_other = []
    remote = {'aet': 'SRV', 'address': 'peer.example', 'port': 104}
    got = []
    try:
        with fd.installed(fac):
            if via == 'c_find':
                for ds, status in pynetdicom2.c_find(remote, 'CLI', to_ds(query), sop):
                    got.append((ds, int(status), status))
            else:
                ae = applicationentity.ClientAE('CLI', [ts])
                ae.timeout = 0.01
                ae.add_scu(getattr(sopclass, service_name), [sop])
                early = msg_id % 3 == 1
                if early:
                    ae.add_scu(sopclass.verification_scu)
                with contextlib.ExitStack() as stack:
                    assoc = stack.enter_context(ae.request_association(remote))
                    if second:
                        ae2 = applicationentity.ClientAE('CLI2', [ts_other])
                        ae2.timeout = 0.01
                        ae2.add_scu(sopclass.verification_scu)
                        ae2.add_scu(getattr(sopclass, service_name), [sop])
                        other = stack.enter_context(ae2.request_association(remote))
                    results = assoc.get_scu(sop)(to_file_ds(query) if msg_id % 4 == 2 else to_ds(query), msg_id)
                    if early:
                        # the query is prepared, another operation is carried out on the association, and only then
                        # are the results iterated (one outstanding operation at a time, as DICOM requires)
                        st0 = assoc.get_scu(svc.VERIFICATION)(9)
                        state['echo_status'] = int(st0)
                    for ds, status in results:
                        got.append((ds, int(status), status))
                    if matches and msg_id % 2 == 0 and got and got[0][0] is not None:
                        # drill down: a match that was received is edited in place and sent as the next query
                        nxt = got[0][0]
                        nxt.QueryRetrieveLevel = 'IMAGE'
                        if 'PatientID' in nxt:
                            nxt.PatientID = 'EDITED'
                        state['requery'] = svc.enc_ds(nxt, svc.EXPLICIT)
                        for _ in assoc.get_scu(sop)(nxt, (msg_id + 1) & 0xFFFF):
                            pass
                    if second:
                        for ds, status in other.get_scu(sop)(to_ds(query), 7):
                            got_other.append((ds, int(status)))
    except Violation:
        raise
    except Exception as exc:
        raise Violation('%s:scu:exception:%s' % (PROP, lib_frame(exc)), '%s raised %r' % (via, exc), case)
    dul = fac.instances[0]
    rq = state.get('rq')
    if rq is None:
        raise Violation('%s:scu:no-request' % PROP, 'no C-FIND-RQ was sent', case)
    if rq['pc_ids'][0] not in dul.accepted_contexts:
        raise Violation('%s:scu:context' % PROP, 'the C-FIND-RQ went out on presentation context %r, which was not accepted '
                        'on this association (accepted: %r)' % (rq['pc_ids'][0], sorted(dul.accepted_contexts)), case)
    rq_ts = str(dul.accepted_contexts[rq['pc_ids'][0]].supported_ts)
    if not svc.wire_ds_equal(rq['data'] or b'', rq_ts, to_ds(query)) or rq['fields'].get(0x0002) != sop:
        raise Violation('%s:scu:query' % PROP, 'identifier / SOP class of the C-FIND-RQ differ from what the caller gave', case)
    if 'echo_status' in state and state['echo_status'] != 0:
        raise Violation('%s:scu:interleaved-echo' % PROP, 'a C-ECHO carried out between preparing a query and iterating its '
                        'results returned status %04XH (the peer answered it with success)' % state['echo_status'], case)
    rounds = 1
    if 'requery' in state:
        rounds = 2
        if len(state['rqs']) != 2:
            raise Violation('%s:scu:requery' % PROP, '%d C-FIND-RQ sent for two queries' % len(state['rqs']), case)
        try:
            sent2 = svc.enc_ds(svc.dec_ds(state['rqs'][1]['data'] or b'', rq_ts), svc.EXPLICIT)
        except Exception:
            sent2 = None
        if sent2 != state['requery']:
            raise Violation('%s:scu:requery' % PROP, 'second query (a received match, edited by the caller): identifier on the '
                            'wire differs from the data set the caller passed', case)
    want = [(m, code) for m, code in matches] + [(None, final)]
    if second:
        rq2 = state_other.get('rq')
        d2 = fac.instances[1]
        ok = rq2 is not None and rq2['fields'].get(0x0002) == sop and rq2['pc_ids'][0] in d2.accepted_contexts
        if ok:
            ts2 = str(d2.accepted_contexts[rq2['pc_ids'][0]].supported_ts)
            ok = ts2 == ts_other and svc.wire_ds_equal(rq2['data'] or b'', ts2, to_ds(query))
        if not ok:
            raise Violation('%s:scu:second-association:query' % PROP, 'a second association negotiated %s for the class (the '
                            'first one %s): its C-FIND-RQ does not carry the query on its own context in its own transfer '
                            'syntax' % (ts_other, ts), case)
        if [c for _, c in got_other] != [c for _, c in want] or \
                any(m is not None and (ds is None or not svc.ds_equal(ds, to_ds(m))) for (m, _), (ds, _c) in zip(want, got_other)):
            raise Violation('%s:scu:second-association:results' % PROP, 'the second association (negotiated %s) did not '
                            'receive exactly what its peer sent' % ts_other, case)
    if len(got) != len(want):
        raise Violation('%s:scu:count' % PROP, 'peer sent %d pending + 1 final response, caller received %d items (statuses %r)'
                        % (len(matches), len(got), ['%04X' % g_[1] for g_ in got]), case)
    for i, ((m, code), (ds, st_, sobj)) in enumerate(zip(want, got)):
        if st_ != code:
            raise Violation('%s:scu:status' % PROP, 'item %d: status %04XH, peer sent %04XH' % (i + 1, st_, code), case)
        if m is None:
            if ds is not None:
                raise Violation('%s:scu:final-dataset' % PROP, 'final item carries a data set', case)
        elif 'requery' in state and i == 0:
            pass                    # (edited by the caller afterwards)
        elif ds is None or not svc.ds_equal(ds, to_ds(m)):
            raise Violation('%s:scu:identifier' % PROP, 'item %d: data set differs from the one the peer sent' % (i + 1), case)
        if i < len(matches) and not sobj.is_pending:
            raise Violation('%s:scu:pending-class' % PROP, 'item %d: status %04XH not classified pending' % (i + 1, st_), case)
    # receive() calls: A-ASSOCIATE-AC, one per response, A-RELEASE-RP - and not one more
    if dul.receive_calls != rounds * (len(matches) + 1) + 2 + (1 if 'echo_status' in state else 0) or dul.timeouts:
        raise Violation('%s:scu:read-past-final' % PROP, 'the user side called receive() %d times (%d timed out) for %d '
                        'responses' % (dul.receive_calls, dul.timeouts, len(matches) + 1), case)


pend = st.sampled_from([0xFF00, 0xFF00, 0xFF01])
matches_st = st.lists(st.tuples(dataset_spec(), pend), min_size=0, max_size=12)
msg_ids = st.one_of(st.sampled_from([0, 1, 65535]), st.integers(0, 65535))
pc_ids = st.integers(0, 127).map(lambda x: 2 * x + 1)

SCP = st.tuples(st.sampled_from(['qr_find_scp', 'modality_work_list_scp']),
                st.sampled_from([svc.PATIENT_FIND, svc.STUDY_FIND, svc.MWL_FIND, '1.2.3.4.5']),
                st.integers(0, 2), st.sampled_from([0, 32, 64, 128, 1024, 16384]), dataset_spec(), matches_st, msg_ids, pc_ids)
SCU = st.tuples(st.sampled_from(['qr_find_scu', 'modality_work_list_scu']),
                st.sampled_from([svc.PATIENT_FIND, svc.STUDY_FIND, svc.MWL_FIND]),
                st.integers(0, 2), dataset_spec(), matches_st, st.sampled_from([0x0000, 0xA700, 0xC001, 0xFE00]),
                msg_ids, st.just('get_scu'))
WRAP = st.tuples(st.just('qr_find_scu'), st.sampled_from([svc.PATIENT_FIND, svc.STUDY_FIND]), st.sampled_from([0, 1, 2]),
                 dataset_spec(), matches_st, st.sampled_from([0x0000, 0xA700, 0xC001, 0xFE00]), st.just(1),
                 st.just('c_find'))


def clock_step_case(step):
    """While the query user waits for the next response (DULServiceProvider.receive, time-out 3 s) the wall clock is
    stepped - NTP, a suspended laptop, an administrator.  The response arrives half a second into the wait: it is
    received.  (The monotonic clock is untouched, as in reality.)"""
    import threading
    import time as real_time
    from pynetdicom2 import dulprovider, exceptions
    case = {'side': 'clock-step', 'step': step}

    class Waiting(dulprovider.DULServiceProvider):
        def start(self):        # (no event loop needed: only the user's side of the indication queue is exercised)
            pass

    class SteppedTime(object):
        def __init__(self):
            self.t0 = real_time.time()

        def time(self):
            now = real_time.time()
            return now + (step if now - self.t0 > 0.15 else 0.0)

        def __getattr__(self, name):
            return getattr(real_time, name)
    saved = dulprovider.time
    dulprovider.time = SteppedTime()
    try:
        prov = Waiting(frozenset(), None, None, 16384)
        timer = threading.Timer(0.5, lambda: prov.to_service_user.put('NEXT-RESPONSE'))
        timer.daemon = True
        timer.start()
        t0 = real_time.time()
        try:
            got = prov.receive(3.0)
        except exceptions.DCMTimeoutError:
            raise Violation('%s:scu:clock-step' % PROP, 'the wall clock was stepped by %+d s while the user waited (time-out 3 s) '
                            'for a response that arrived after 0.5 s: the wait ended with DCMTimeoutError after %.1f s'
                            % (step, real_time.time() - t0), case)
        if got != 'NEXT-RESPONSE':
            raise Violation('%s:scu:clock-step' % PROP, 'receive() returned %r' % (got,), case)
    finally:
        dulprovider.time = saved


def _reproduced_clock_step(step):
    from .. import loopback as lb
    try:
        lb.reproduced(clock_step_case, step)      # (real time: three times in a row, or it does not count)
    except lb.Inconclusive:
        pass


def nontrivial(matches):
    return len(matches) >= 2 or len({c for _, c in matches}) > 1


def shard(ctx, job):
    quiet_warnings()

    def scp(value):
        multi = scp_case(value)
        scp_case(value, lazy=True)        # same case with a slow provider thread (messages encoded late)
        if value[5] and len(value[5]) % 3 != 1:
            scp_case(value, lazy=len(value[5]) % 2 == 1, reuse=True)      # handler fills in and yields the query object
        if value[5]:
            scp_case(value, lazy=len(value[5]) % 2 == 0, fail_after=len(value[5]) // 2)   # handler fails mid-stream
        ctx.case(('scp', value), nontrivial(value[5]) or multi > 0,
                 labels=['scp', 'svc=' + value[0], 'matches=%d' % len(value[5]), 'multi-fragment' if multi else 'single'],
                 sample={'side': 'scp', 'service': value[0], 'ts': TSS[value[2]], 'max_pdu': value[3], 'matches': value[5][:3]})
    hyp_search(ctx, SCP, scp, job['n'], name='C16-scp')

    def scu(value):
        ctx.case(('scu', value), nontrivial(value[4]),
                 labels=['scu', 'via=' + value[7], 'svc=' + value[0], 'matches=%d' % len(value[4]), 'final=%04X' % value[5]],
                 sample={'side': 'scu', 'via': value[7], 'final': value[5], 'matches': value[4][:3]})
        scu_case(value)
    hyp_search(ctx, st.one_of(SCU, SCU, WRAP), scu, job['n'], name='C16-scu')


def run(ctx):
    quiet_warnings()
    ctx.rule = ('Hypothesis: match sequences of 0-12 (identifier, pending code FF00/FF01) with generated identifiers '
                '(odd-length values, long descriptions), 3 transfer syntaxes, maximum PDU lengths down to 32 bytes; '
                'provider side through qr_find_scp / modality_work_list_scp (wire read by the reference codecs), user '
                'side through qr_find_scu / modality_work_list_scu / the c_find() wrapper against a scripted peer with '
                'final status success/failure/cancel, counting every receive() call; provider handler failing after k matches; provider handler filling in and yielding the query object itself; the caller editing a received match and sending it as the next query; a query prepared, a C-ECHO carried out, and only then the results iterated; identifiers given as FileDataset objects (as read from files); the same status codes classified earlier in the process for other commands / none; a second requested association alive meanwhile that negotiated another transfer syntax and context ID for the same class; '
                'non-trivial = >=2 matches, mixed pending codes or a multi-fragment response')
    ctx.assumptions = ['matches carry only pending statuses (a non-pending status supplied by the handler is outside the statement)',
                       'loopback composition of both sides is exercised by C20/C15 style checks, not here']
    for step in (3600, 86400 * 30):
        ctx.case(('clock-step', step), True, labels=['wall-clock-stepped-while-waiting'], sample={'step_seconds': step})
        ctx.check(_reproduced_clock_step, step)
    n = 1500 if ctx.thorough else 150
    parallel(ctx, shard, [{'n': n} for _ in range(16 if ctx.thorough else 12)])


def replay(case):
    quiet_warnings()
    m = [(a, b) for a, b in case['matches']]
    if case['side'] == 'clock-step':
        clock_step_case(case['step'])
        return
    if case['side'] == 'scp':
        if case.get('reuse'):
            m = [(a, b) for a, b in case['fills']]
        scp_case((case['service'], case['sop'], case['ts'], case['max_pdu'], case['query'], m, case['msg_id'], case['pc_id']),
                 case.get('lazy', False), case.get('fail_after'), case.get('reuse', False))
    else:
        scu_case((case['service'], case['sop'], case['ts'], case['query'], m, case['final'], case['msg_id'], case['via']))
