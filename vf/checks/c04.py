"""C04 - the state machine performs the PS3.8 Table 9-10 action and transition in every cell.

Exhaustive over 13 states x 19 events x role x ARTIM pre-state x primitive variants, on a real
provider object (no thread) whose state is set directly; oracle = vf/ulmodel.py.
"""
from __future__ import annotations

import warnings

from hypothesis import strategies as st

from .. import pdugen as g
from .. import refcmd, refpdu, simnet, ulmodel
from ..common import Violation, HarnessError, hyp_search, lib_frame, quiet_warnings

LEVEL = 'exploration'

ECHO_CMD = refcmd.encode({0x0002: '1.2.840.10008.1.1', 0x0100: 0x0030, 0x0110: 5, 0x0800: 0x0101})

CANON = {
    1: {'t': 1, 'r1': 0, 'ver': 1, 'r2': 0, 'called': 'SRV', 'calling': 'CLI', 'r3': [0] * 8,
        'items': [{'t': 0x10, 'r': 0, 'name': '1.2.840.10008.3.1.1.1'},
                  {'t': 0x20, 'r1': 0, 'id': 1, 'r2': 0, 'r3': 0, 'r4': 0,
                   'abs': {'r': 0, 'name': '1.2.840.10008.1.1'}, 'ts': [{'r': 0, 'name': '1.2.840.10008.1.2'}]},
                  {'t': 0x50, 'r': 0, 'subs': [{'t': 0x51, 'r': 0, 'max': 16384}]}]},
    2: {'t': 2, 'r1': 0, 'ver': 1, 'r2': 0, 'called': 'SRV', 'calling': 'CLI', 'r3': [0] * 8,
        'items': [{'t': 0x10, 'r': 0, 'name': '1.2.840.10008.3.1.1.1'},
                  {'t': 0x21, 'r1': 0, 'id': 1, 'r2': 0, 'result': 0, 'r3': 0,
                   'ts': {'r': 0, 'name': '1.2.840.10008.1.2'}},
                  {'t': 0x50, 'r': 0, 'subs': [{'t': 0x51, 'r': 0, 'max': 16384}]}]},
    3: {'t': 3, 'r1': 0, 'r2': 0, 'result': 1, 'source': 1, 'reason': 2},
    4: {'t': 4, 'r': 0, 'pdvs': [{'id': 1, 'data': b'\x03' + ECHO_CMD}]},
    5: {'t': 5, 'r1': 0, 'r2': 0},
    6: {'t': 6, 'r1': 0, 'r2': 0},
    7: {'t': 7, 'r1': 0, 'r2': 0, 'r3': 0, 'source': 0, 'reason': 0},
}
PARTIAL_PDATA = {'t': 4, 'r': 0, 'pdvs': [{'id': 1, 'data': b'\x01' + ECHO_CMD[:10]}]}
ABORT_SP = {'t': 7, 'r1': 0, 'r2': 0, 'r3': 0, 'source': 2, 'reason': 5}

EVENT_PDU = {3: 2, 4: 3, 6: 1, 10: 4, 12: 5, 13: 6, 16: 7}       # event -> received PDU type
USER_PDU = {1: 1, 7: 2, 8: 3, 9: 4, 11: 5, 14: 6, 15: 7}          # event -> user primitive type


def variants(evt, state):
    """Plain-data descriptions of what may be in the current-primitive slot for this event."""
    if evt in EVENT_PDU:
        t = EVENT_PDU[evt]
        out = [{'origin': 'peer', 'spec': CANON[t]}]
        if t in (1, 2):
            # Protocol-version is a bit mask of which only bit 0 is tested (PS3.8 9.3.2/9.3.3): a peer that also
            # announces later versions is as acceptable as one that announces version 1 alone
            out += [{'origin': 'peer', 'spec': dict(CANON[t], ver=v)} for v in (0x0003, 0x8001, 0xFFFF)]
        # reserved fields are not tested on receipt
        res = {k: (0x2A if k in ('r', 'r1') else 0x1234 if k == 'r2' and t in (1, 2) else 0x2A2A2A2A if k == 'r2' and t in (5, 6)
                   else 0x2A) for k in CANON[t] if k in ('r', 'r1', 'r2') or (k == 'r3' and t == 7)}
        if res:
            out.append({'origin': 'peer', 'spec': dict(CANON[t], **res)})
        if t == 4:
            out.append({'origin': 'peer', 'spec': PARTIAL_PDATA})
        if t == 7:
            out.append({'origin': 'peer', 'spec': ABORT_SP})
        return out
    if evt in USER_PDU:
        t = USER_PDU[evt]
        out = [{'origin': 'user', 'spec': CANON[t]}]
        if t == 7:
            out.append({'origin': 'user', 'spec': ABORT_SP})
        return out
    if evt == 2:
        return [{'origin': 'user', 'spec': CANON[1]}]
    # Evt5, 17, 18, 19: the slot holds whatever an earlier step left there
    out = [{'origin': None, 'spec': None}]
    if state not in (1, 2):
        for t in (1, 2, 4, 5):
            out.append({'origin': 'stale', 'spec': CANON[t]})
    if state == 13:
        out.append({'origin': 'stale', 'spec': ABORT_SP})
    return out


def make_primitive(var):
    if var['spec'] is None:
        return None
    spec = var['spec']
    obj = g.build(spec)
    if var['origin'] in ('peer', 'stale'):
        obj = g.pdu_class(spec['t']).decode(obj.encode())     # as _process_incoming produces it
    if var['origin'] == 'user' and spec['t'] == 1:
        obj.called_presentation_address = ('peer.example', 104)
    return obj


def exercise(state, evt, role, artim_pre, var, before=None, shutdown_fault=False):
    """Returns observation dict.  before = (event, variant) of an UNDEFINED combination applied first: it has no
    effect, so the cell exercised after it behaves as if it had never happened."""
    sim = simnet.Sim(role, [], shutdown_fault=shutdown_fault)
    with sim.patched():
        p = sim.build()
        sm = p.state_machine
        p.event.clear()
        sm.current_state = state - 1
        has_transport = not (state == 1 and evt != 5) and evt != 17
        if evt == 17:
            sim.sock.closed = True         # _check_incoming_pdu has closed and dropped the socket
        p.dul_socket = sim.sock if has_transport else None
        if state != 1 and role == 'requestor':
            sim.sock.connected_to = ('peer.example', 104)
        if artim_pre:
            p.timer.start()
        sim.now += 3.0
        if before is not None:
            p.primitive = make_primitive(before[1])
            try:
                sm.action(before[0] - 1)
            except HarnessError:
                raise
            except BaseException:     # noqa - judged by the enumeration of the undefined cell itself
                pass
            if sim.log or sm.current_state != state - 1 or (p.dul_socket is None) != (not has_transport):
                return None           # (it did have an immediate effect: that is reported by the plain enumeration)
        p.primitive = make_primitive(var)
        exc = None
        try:
            sm.action(evt - 1)
        except HarnessError:
            raise
        except BaseException as e:     # noqa - includes simnet.Hang
            exc = e
        return {
            'exc': exc, 'state': sm.current_state + 1 if isinstance(sm.current_state, int) else 'invalid(%r)' % (sm.current_state,),
            'wire': b''.join(e[1] for e in sim.log if e[0] == 'send'),
            'inds': [e[1] for e in sim.log if e[0] == 'ind'],
            'closed': ('close',) in sim.log,
            'connect': [e[1] for e in sim.log if e[0] == 'connect'],
            'artim': sim.timer_started() is not None, 'artim_start': sim.timer_started(),
            'now': sim.now, 'dul_socket_none': p.dul_socket is None, 'had_transport': has_transport,
        }


def judge(state, evt, role, artim_pre, var, obs, before=None):
    case = {'state': state, 'event': evt, 'role': role, 'artim_pre': artim_pre, 'variant': var}
    if before is not None:
        case['before'] = [before[0], before[1]]
    cell = 'Sta%d/Evt%d' % (state, evt)
    ent = ulmodel.lookup(evt, state, role)

    def bad(aspect, what):
        act = ent[0] if ent else 'undefined'
        raise Violation('C04:%s:%s' % (act, aspect), '%s (%s, %s): %s' % (cell, act, role, what), case)

    try:
        wire = refpdu.parse_stream(obs['wire'])
    except refpdu.RefError as exc:
        bad('wire-malformed', 'bytes written are not well-formed PDUs: %s' % exc)
    if ent is None:
        if obs['wire'] or obs['inds'] or obs['closed'] or obs['connect']:
            bad('effect', 'undefined cell had an effect: wire=%d bytes, indications=%d, closed=%s'
                % (len(obs['wire']), len(obs['inds']), obs['closed']))
        if obs['artim'] != artim_pre or (artim_pre and obs['artim_start'] != simnet.Sim.START_TIME):
            bad('timer', 'undefined cell changed the ARTIM timer')
        if obs['state'] != state:
            bad('state', 'undefined cell moved to Sta%s' % obs['state'])
        return
    action, nxt = ent
    a = ulmodel.ACTIONS[action]
    if obs['exc'] is not None:
        bad('exception:%s' % lib_frame(obs['exc']), 'action raised %r' % (obs['exc'],))
    # ---- wire
    spec = var['spec']
    exp_wire = a['wire']
    if not obs['had_transport']:
        exp_wire = None
    if exp_wire is None:
        if wire:
            bad('wire', 'wrote %d PDU(s), none expected' % len(wire))
    else:
        if len(wire) != 1:
            bad('wire', 'wrote %d PDU(s), exactly one expected' % len(wire))
        w = refpdu.strip_n(wire[0])
        if exp_wire == 'user' or (exp_wire == 'abort-su' and evt == 15):
            if g.first_diff(g.norm_ae(w), g.norm_ae(spec)):
                bad('wire', 'did not transmit the primitive of the user: sent PDU type %s %s' %
                    (w['t'], {k: w[k] for k in ('source', 'reason') if k in w}))
        elif exp_wire == 'release-rq':
            if w['t'] != 5:
                bad('wire', 'sent PDU type %d, expected A-RELEASE-RQ' % w['t'])
        elif exp_wire == 'release-rp':
            if w['t'] != 6:
                bad('wire', 'sent PDU type %d, expected A-RELEASE-RP' % w['t'])
        else:
            if w['t'] != 7:
                bad('wire', 'sent PDU type %d, expected A-ABORT' % w['t'])
            want = {'abort-su': 0, 'abort-sp': 2, 'abort': None}[exp_wire]
            if want is not None and w['source'] != want:
                bad('abort-source', 'A-ABORT source %d, standard prescribes %d' % (w['source'], want))
    # ---- indications
    inds = obs['inds']
    if a['ind'] is None:
        if inds:
            bad('indication', '%d indication(s) given, none expected' % len(inds))
    elif a['ind'] == 'pdu':
        if len(inds) != 1 or not hasattr(inds[0], 'pdu_type') or \
                g.first_diff(g.norm_ae(g.extract(inds[0])), g.norm_ae(spec)):
            bad('indication', 'expected the received PDU as the only indication, got %r'
                % ([type(i).__name__ for i in inds],))
    elif a['ind'] == 'p-abort':
        if obs['had_transport'] or action == 'AA-4':
            if len(inds) != 1 or getattr(inds[0], 'pdu_type', None) != 7:
                bad('indication', 'expected one abort indication, got %r' % ([type(i).__name__ for i in inds],))
    elif a['ind'] == 'data':
        complete = spec is not None and spec['pdvs'][-1]['data'][0] == 3
        if complete:
            if len(inds) != 1 or not isinstance(inds[0], tuple) or \
                    getattr(inds[0][0], 'command_field', None) != 0x0030 or inds[0][1] != 1:
                bad('indication', 'expected one P-DATA indication (C-ECHO-RQ, context 1), got %r' % (inds,))
        elif inds:
            bad('indication', 'indication given for an incomplete message')
    # ---- connection
    if a['connect']:
        if obs['connect'] != [('peer.example', 104)]:
            bad('connect', 'transport connect requests: %r' % (obs['connect'],))
    elif obs['connect']:
        bad('connect', 'unexpected transport connect')
    if a['close'] and obs['had_transport']:
        if not obs['closed'] or not obs['dul_socket_none']:
            bad('close', 'transport connection not closed (closed=%s, dul_socket None=%s)'
                % (obs['closed'], obs['dul_socket_none']))
    elif obs['closed']:
        bad('close', 'transport connection closed, not prescribed')
    # ---- ARTIM
    if a['artim'] in ('start', 'restart'):
        if not obs['artim']:
            bad('timer', 'ARTIM not running after the action (standard: %s)' % a['artim'])
        if a['artim'] == 'restart' and obs['artim_start'] != obs['now']:
            bad('timer', 'ARTIM not restarted')
        if not artim_pre and obs['artim_start'] != obs['now']:
            bad('timer', 'ARTIM start time wrong')
    elif a['artim'] == 'stop':
        if obs['artim']:
            bad('timer', 'ARTIM still running after the action (standard: stop)')
    else:
        if obs['artim'] != artim_pre or (artim_pre and obs['artim_start'] != simnet.Sim.START_TIME):
            bad('timer', 'ARTIM changed (running %s -> %s), not prescribed' % (artim_pre, obs['artim']))
    if obs['state'] != nxt:
        bad('next-state', 'moved to Sta%s, standard prescribes Sta%d' % (obs['state'], nxt))


def one(ctx, state, evt, role, artim_pre, var, label):
    obs = exercise(state, evt, role, artim_pre, var)
    defined = ulmodel.lookup(evt, state, role) is not None
    ctx.case((state, evt, role, artim_pre, var), defined or obs['had_transport'],
             labels=[label, 'defined' if defined else 'undefined', 'evt=%d' % evt],
             sample={'state': state, 'event': evt, 'role': role, 'artim_running_before': artim_pre,
                     'slot': None if var['spec'] is None else {'origin': var['origin'], 'pdu_type': var['spec']['t']}})
    try:
        judge(state, evt, role, artim_pre, var, obs)
    except Violation as v:
        ctx.fail(v.key, v.what, v.case)
    return defined


def run(ctx):
    quiet_warnings()
    if len(ulmodel.TABLE) != 123:
        raise HarnessError('model table has %d cells' % len(ulmodel.TABLE))
    ctx.exhaustive = True
    ctx.rule = ('exhaustive product: 13 states x 19 events x {requestor, acceptor} x ARTIM {running, stopped} x '
                'every primitive variant applicable to the event (received/user PDU of the kind of the event incl. '
                'complete and partial P-DATA and both abort sources; stale slot contents for events without a '
                'PDU); every defined cell once more right after each undefined event of its state; plus Hypothesis-drawn PDU contents for the PDU-carrying cells; non-trivial = defined cell, '
                'or undefined cell exercised with a live transport; distinct by (state, event, role, timer, slot)')
    ctx.assumptions = ['Table 9-10 and actions transcribed from PS3.8 (vf/ulmodel.py), 123 defined cells',
                       'AA-4 indication accepted as any abort indication object; AE-6 modelled as "acceptable"',
                       'Evt17 is exercised with the transport already closed, as the socket reader leaves it',
                       'stale slot contents restricted to what an earlier step can have left in that state']
    cells = set()
    for state in range(1, 14):
        for evt in range(1, 20):
            for role in ('requestor', 'acceptor'):
                for artim_pre in (False, True):
                    for var in variants(evt, state):
                        if one(ctx, state, evt, role, artim_pre, var, 'enumeration'):
                            cells.add((state, evt))
    # the actions that close the transport, once more on a connection the peer has reset: a shutdown() the
    # implementation may call before close() fails with ENOTCONN there - closing is still closing
    for (evt, state), (action, nxt) in sorted(ulmodel.TABLE.items()):
        if not ulmodel.ACTIONS[action]['close'] or evt == 17:
            continue
        for role in ('requestor', 'acceptor'):
            if ulmodel.lookup(evt, state, role) is None:
                continue
            for var in variants(evt, state)[:2]:
                obs = exercise(state, evt, role, False, var, shutdown_fault=True)
                ctx.case((state, evt, role, var, 'shutdown-fault'), True, labels=['shutdown-fails', 'evt=%d' % evt],
                         sample={'state': state, 'event': evt, 'role': role, 'shutdown()': 'ENOTCONN'})
                try:
                    judge(state, evt, role, False, var, obs)
                except Violation as v:
                    v.case['shutdown_fault'] = True
                    ctx.fail(v.key + ':shutdown-fails', v.what + ' [shutdown() on the transport fails with ENOTCONN]', v.case)
    ctx.extra['defined_cells_exercised'] = len(cells)
    if len(cells) != 123:
        raise HarnessError('only %d of 123 defined cells exercised' % len(cells))

    # an undefined combination has no effect - not now, and not later: every defined cell of the state once more,
    # right after each undefined event of that state
    n_after = 0
    for state in range(1, 14):
        for role in ('requestor', 'acceptor'):
            undefined = [e for e in range(1, 20) if ulmodel.lookup(e, state, role) is None and e not in (5, 17)]
            defined = [e for e in range(1, 20) if ulmodel.lookup(e, state, role) is not None]
            for e0 in undefined:
                v0 = variants(e0, state)[0]
                for evt in defined:
                    for var in variants(evt, state)[:2]:
                        obs = exercise(state, evt, role, False, var, before=(e0, v0))
                        if obs is None:
                            continue
                        n_after += 1
                        ctx.case((state, evt, role, var, 'after', e0), True, labels=['after-undefined', 'evt=%d' % evt],
                                 sample={'state': state, 'undefined event first': e0, 'then event': evt, 'role': role})
                        try:
                            judge(state, evt, role, False, var, obs, before=(e0, v0))
                        except Violation as v:
                            ctx.fail(v.key + ':after-undefined', v.what + ' [right after the undefined Evt%d in the same state]' % e0, v.case)
    ctx.extra['after_undefined_cases'] = n_after

    # generated contents for the cells whose action touches the PDU
    pdu_cells = [(s, e) for (e, s) in ulmodel.TABLE if e in EVENT_PDU or e in USER_PDU]
    kinds = {1: g.assoc_pdu(1), 2: g.assoc_pdu(2), 3: g.rj_pdu, 5: g.rel_pdu.filter(lambda p: p['t'] == 5),
             6: g.rel_pdu.filter(lambda p: p['t'] == 6), 7: g.abort_pdu}
    strat = st.sampled_from(sorted(pdu_cells)).flatmap(
        lambda c: st.tuples(st.just(c), st.sampled_from(['requestor', 'acceptor']), st.booleans(),
                            kinds.get(EVENT_PDU.get(c[1], USER_PDU.get(c[1])), st.just(None))))

    def fn(value):
        (state, evt), role, artim_pre, spec = value
        if spec is None:
            return
        var = {'origin': 'peer' if evt in EVENT_PDU else 'user', 'spec': spec}
        obs = exercise(state, evt, role, artim_pre, var)
        ctx.case((state, evt, role, artim_pre, var), True, labels=['generated-content', 'evt=%d' % evt])
        judge(state, evt, role, artim_pre, var, obs)
    hyp_search(ctx, strat, fn, 20000 if ctx.thorough else 400, name='C04-content')


def replay(case):
    quiet_warnings()
    before = tuple(case['before']) if case.get('before') else None
    obs = exercise(case['state'], case['event'], case['role'], case['artim_pre'], case['variant'], before=before,
                   shutdown_fault=case.get('shutdown_fault', False))
    if obs is None:
        print('the undefined event had an immediate effect (reported by the plain enumeration)')
        return
    judge(case['state'], case['event'], case['role'], case['artim_pre'], case['variant'], obs, before=before)
