"""C05 - provider behaviour equals the PS3.8 protocol machine over every event history."""
from __future__ import annotations

import warnings

from hypothesis import strategies as st

from .. import convs, history as H, pdugen as g, refcmd, refpdu, ulmodel
from ..common import Violation, HarnessError, hyp_search, parallel, quiet_warnings

LEVEL = 'exploration'
PROP = 'C05'

STORE_CMD = refcmd.encode({0x0002: convs.STORE_UID, 0x0100: 0x0001, 0x0110: 7, 0x0700: 0, 0x0800: 0x0001,
                           0x1000: '1.2.3.4.5.6'})
PART1 = {'t': 4, 'r': 0, 'pdvs': [{'id': 3, 'data': b'\x01' + STORE_CMD[:20]}]}
PART2 = {'t': 4, 'r': 0, 'pdvs': [{'id': 3, 'data': b'\x03' + STORE_CMD[20:]}]}
PART3 = {'t': 4, 'r': 0, 'pdvs': [{'id': 3, 'data': b'\x02' + b'DATASETBYTES'}]}
# complete command set of a C-STORE-RQ for a class that is NOT received into a file (data set pending: PART3 ends it)
# (its Command Data Set Type is 0000H: any value but 0101H says 'data set present')
MEM_CMD = refcmd.encode({0x0002: '1.2.840.10008.5.1.4.1.1.2', 0x0100: 0x0001, 0x0110: 9, 0x0700: 0, 0x0800: 0x0000,
                         0x1000: '1.2.3.4.5.9'})
MEMDATA = {'t': 4, 'r': 0, 'pdvs': [{'id': 3, 'data': b'\x02' + b'ANOTHER, LONGER DATA SET'}]}
MEMPART = {'t': 4, 'r': 0, 'pdvs': [{'id': 3, 'data': b'\x03' + MEM_CMD}]}
# legal association PDUs far beyond any maximum PDU length (which does not apply to them): 128 contexts x 50 syntaxes
_MANY_TS = [{'r': 0, 'name': '1.2.840.10008.1.2.4.%d' % k} for k in range(50, 100)]
HUGE_RQ = dict(convs.RQ_SPEC, items=[convs.RQ_SPEC['items'][0]] +
               [{'t': 0x20, 'r1': 0, 'id': 2 * i + 1, 'r2': 0, 'r3': 0, 'r4': 0,
                 'abs': {'r': 0, 'name': '1.2.840.10008.5.1.4.1.1.%d' % (i + 1)}, 'ts': _MANY_TS} for i in range(128)] +
               [convs.RQ_SPEC['items'][-1]])
HUGE_AC = dict(convs.AC_SPEC, items=[convs.AC_SPEC['items'][0]] +
               [{'t': 0x21, 'r1': 0, 'id': (2 * i + 1) % 256, 'r2': 0, 'result': 0 if i < 2 else 3, 'r3': 0,
                 'ts': {'r': 0, 'name': convs.IMPLICIT}} for i in range(1, 128)] * 70 +
               [convs.AC_SPEC['items'][-1]])
TWO_MSGS = {'t': 4, 'r': 0, 'pdvs': convs.echo_rq(1)['pdvs'] + convs.echo_rq(2)['pdvs']}
ECHO1 = convs.echo_rq(1)
USER_MSG3 = convs.store_rq_pdus(2, pc_id=3)            # 3 fragments (1 command + 2 data)


# the provider's own maximum PDU length (what it asks the peer to respect for P-DATA-TF); it has no bearing on
# the state machine, and association PDUs are not subject to it
OWN_MAX = [65536, 65536, 0, 48, 4096]


def eager_ok(prefix, max_pdu):
    """May the next network action be delivered back-to-back with the current step?  When the provider reads in
    small chunks, a peer PDU racing a multi-fragment P-DATA request is legitimately recognised some fragments
    later than the model's fixed interleaving assumes (it is not yet complete), so that combination is not
    generated: the race is covered with the large read size."""
    if max_pdu in (0, 65536):
        return True
    i = len(prefix) - 1
    while i >= 0 and H.is_eager(prefix[i]):
        i -= 1
    return not (i >= 0 and prefix[i]['a'] == 'user' and len(prefix[i].get('msg', ())) > 1)


def racing_multifrag(prefix):
    """Would a back-to-back network action now race a multi-fragment P-DATA request of the local user?"""
    i = len(prefix) - 1
    while i >= 0 and H.is_eager(prefix[i]):
        i -= 1
    return i >= 0 and prefix[i]['a'] == 'user' and len(prefix[i].get('msg', ())) > 1


def peer_progress(model):
    """0 = no message in progress from the peer, 1 = command started, 2 = command done (data pending)."""
    r = model.reasm
    if r.cmd_done:
        return 2
    return 1 if r.cmd else 0


def heads(model):
    """The peer pauses inside a PDU (first bytes only: inside the 6-byte header, inside the body, inside a PDV header)."""
    out = [{'a': 'head', 'spec': convs.REL_RQ, 'cut': 3}, {'a': 'head', 'spec': convs.ABORT_SU, 'cut': 8}]
    if model.state == 2:
        out.append({'a': 'head', 'spec': convs.RQ_SPEC, 'cut': 40})
    if model.state == 5:
        out.append({'a': 'head', 'spec': convs.AC_SPEC, 'cut': 5})
    if model.state in (6, 7) and peer_progress(model) == 0:
        out.append({'a': 'head', 'spec': ECHO1, 'cut': 9})
    return out


def net_alphabet(model):
    if not model.transport:
        return []
    if getattr(model, 'half', None) is not None:
        # the byte stream is inside a PDU: all the peer can do is to go on with it, or to close
        return [{'a': 'tail'}, {'a': 'close'}]
    out = [{'a': 'pdu', 'spec': convs.RQ_SPEC}, {'a': 'pdu', 'spec': convs.AC_SPEC},
           {'a': 'pdu', 'spec': convs.RJ_SPEC}, {'a': 'pdu', 'spec': convs.REL_RQ},
           {'a': 'pdu', 'spec': convs.REL_RP}, {'a': 'pdu', 'spec': convs.ABORT_SU},
           {'a': 'raw', 'data': convs.UNKNOWN_PDU}, {'a': 'close'}]
    if model.state == 2:
        out.append({'a': 'pdu', 'spec': HUGE_RQ})
        # protocol-version bit field with further bits set next to bit 0, reserved bytes not zero: neither is tested
        out.append({'a': 'pdu', 'spec': dict(convs.RQ_SPEC, ver=0x8003, r1=0x5A, r2=0xA5A5)})
    if model.state == 5:
        out.append({'a': 'pdu', 'spec': HUGE_AC})
        out.append({'a': 'pdu', 'spec': dict(convs.AC_SPEC, ver=0xFFFF, r1=0x5A, r2=0xA5A5)})
    prog = peer_progress(model) if model.state in (6, 7) else 0
    if prog == 0:
        out += [{'a': 'pdu', 'spec': ECHO1}, {'a': 'pdu', 'spec': PART1}, {'a': 'pdu', 'spec': MEMPART}]
    elif prog == 1:
        out += [{'a': 'pdu', 'spec': PART2}]
    else:
        out += [{'a': 'pdu', 'spec': PART3}, {'a': 'pdu', 'spec': MEMDATA}]
    return out


def user_alphabet(model, role):
    s = model.state
    out = []
    if s == 1 and role == 'requestor' and not model.over and not model.transport:
        out.append({'a': 'user', 'pdu': convs.RQ_SPEC})
    if s == 3:
        out += [{'a': 'user', 'pdu': convs.AC_SPEC}, {'a': 'user', 'pdu': convs.RJ_SPEC}]
    if s in (6, 8):
        out += [{'a': 'user', 'msg': [convs.echo_rsp(1)]}, {'a': 'user', 'msg': USER_MSG3}]
    if s == 6:
        out.append({'a': 'user', 'pdu': convs.REL_RQ})
    if s in (8, 9, 12):
        out.append({'a': 'user', 'pdu': convs.REL_RP})
    if s in (3, 5, 6, 7, 8, 9, 10, 11, 12):
        out.append({'a': 'user', 'pdu': convs.ABORT_SU})
    return out


def tick_alphabet(model):
    return [{'a': 'tick', 'dt': 2.0}, {'a': 'tick', 'dt': 6.0}, {'a': 'tick', 'dt': 11.5}]


def reception(max_pdu):
    """Half of the runs (those with the small / unlimited own maximum) receive the storage class of PART1-3 into a
    file, as a storage provider does; the class of MEMPART and everything else stays in memory."""
    if max_pdu in (65536, 4096):
        return {}
    from pynetdicom2 import applicationentity, asceprovider
    from pydicom import uid
    ae = applicationentity.ClientAE('VERIF')
    ctxs = {1: asceprovider.PContextDef(1, uid.UID(convs.VERIF_UID), uid.UID(convs.IMPLICIT)),
            3: asceprovider.PContextDef(3, uid.UID(convs.STORE_UID), uid.UID(convs.IMPLICIT))}
    return dict(store_in_file=frozenset([convs.STORE_UID]), get_file_cb=ae.get_file, accepted_contexts=ctxs)


def run_history(role, hist, max_pdu=65536):
    case = {'role': role, 'history': hist, 'max_pdu': max_pdu}
    pred, model = H.predict(role, hist)
    sim, obs, pre = H.observe(role, hist, max_pdu=max_pdu, **reception(max_pdu))
    H.compare_racing(PROP, role, hist, pred, sim, obs, case)
    return pred, model


def classify(role, hist, pred):
    states = {g_['state'] for g_ in pred}
    cells = {c for g_ in pred for c in g_['cells']}
    abnormal = any(c[1] in ('AA-1', 'AA-2', 'AA-3', 'AA-4', 'AA-5', 'AA-6', 'AA-7', 'AA-8', 'AR-8')
                   for c in cells)
    return states, cells, (6 in states) or abnormal


def dfs(ctx, role, depth, prefix, model_factory, seen_cells, eager_variants=False, max_pdu=65536):
    """Enumerate all histories extending prefix up to `depth` more steps."""
    pred, model = H.predict(role, prefix)
    if prefix:
        try:
            sim, obs, pre = H.observe(role, prefix, max_pdu=max_pdu, **reception(max_pdu))
            H.compare_racing(PROP, role, prefix, pred, sim, obs, {'role': role, 'history': prefix, 'max_pdu': max_pdu})
        except Violation as v:
            ctx.fail(v.key, v.what, v.case)
            ctx.case((role, prefix), True, labels=['dfs', 'violating'])
            return        # do not extend a violating history (everything behind it is suspect)
        states, cells, nt = classify(role, prefix, pred)
        seen_cells |= cells
        ctx.case((role, prefix, max_pdu), nt, labels=['dfs', 'len=%d' % len(prefix), 'role=' + role, 'own-max=%d' % max_pdu],
                 sample={'role': role, 'history': [brief_action(a) for a in prefix]})
    if depth == 0:
        return
    started = role == 'acceptor' or any(a['a'] == 'user' for a in prefix)
    if started and model.state == 1 and not model.transport:
        return        # association over and transport closed: nothing further can happen
    model.over = started and model.state == 1
    alphabet = user_alphabet(model, role) + net_alphabet(model)
    if model.transport or model.artim_running():
        alphabet += tick_alphabet(model)
    for act in alphabet:
        variants = [act]
        if eager_variants and act['a'] in H.NET and eager_ok(prefix, max_pdu):
            variants.append(dict(act, eager=True))
        for v in variants:
            dfs(ctx, role, depth - 1, prefix + [v], model_factory, seen_cells, eager_variants, max_pdu)


def brief_action(a):
    if a['a'] == 'pdu':
        t = a['spec']['t']
        extra = ''
        if t == 4:
            extra = ':' + ','.join('%d' % v['data'][0] for v in a['spec']['pdvs'])
        return 'pdu%d%s%s' % (t, extra, '!' if a.get('eager') else '')
    if a['a'] == 'head':
        return 'head(pdu%d,%d bytes)%s%s' % (a['spec']['t'], a['cut'], '!' if a.get('eager') else '', '+' if a.get('glue') else '')
    if a['a'] == 'user':
        return 'user:pdu%d' % a['pdu']['t'] if 'pdu' in a else 'user:msg(%d)' % len(a['msg'])
    if a['a'] == 'tick':
        return 'tick%.1f' % a['dt']
    return a['a'] + ('!' if a.get('eager') else '')


def run_dfs(ctx, job):
    quiet_warnings()
    cells = set()
    dfs(ctx, job['role'], job['depth'], job['prefix'], None, cells, job.get('eager', False), job.get('max_pdu', 65536))
    ctx.extra['cells'] = set('Sta%d/Evt%d:%s' % (c[0], c[2], c[1]) for c in cells)


# ------------------------------------------------------------------------------------------
# random walks

@st.composite
def walk(draw, max_len=30):
    role = draw(st.sampled_from(['requestor', 'acceptor']))
    hist = []
    m = ulmodel.Model(role)
    now = H.START
    if role == 'acceptor':
        m.event(5, now)
    n = draw(st.integers(1, max_len))
    for _ in range(n):
        started = role == 'acceptor' or any(a['a'] == 'user' for a in hist)
        if started and m.state == 1 and not m.transport:
            break
        m.over = started and m.state == 1
        # flush pending fragments as the predictor will do before a non-eager action
        choices = []
        users = user_alphabet(m, role)
        nets = net_alphabet(m)
        # bias towards staying associated: prefer user actions and data while establishing
        bias = draw(st.integers(0, 9))
        establish = None
        if bias < 8 and getattr(m, 'half', None) is None:
            if m.state == 2:
                establish = {'a': 'pdu', 'spec': convs.RQ_SPEC}
            elif m.state == 3:
                establish = {'a': 'user', 'pdu': convs.AC_SPEC}
            elif m.state == 5:
                establish = {'a': 'pdu', 'spec': convs.AC_SPEC}
        if establish is not None:
            act = establish
        elif users and (bias < 5 or not nets):
            act = dict(draw(st.sampled_from(users)))
            if 'pdu' in act and draw(st.integers(0, 3)) == 0:
                t = act['pdu']['t']
                if t in (1, 2):
                    act['pdu'] = draw(g.assoc_pdu(t, strict=True, free_order=False))
                elif t == 3:
                    act['pdu'] = draw(g.rj_pdu)
                elif t == 7:
                    act['pdu'] = draw(g.abort_pdu)
        elif nets and bias < 9:
            act = dict(draw(st.sampled_from(nets)))
            if act['a'] == 'pdu' and act['spec']['t'] != 4 and draw(st.integers(0, 2)) == 0:
                t = act['spec']['t']
                if t in (1, 2):
                    act['spec'] = draw(g.assoc_pdu(t, strict=True, free_order=False))
                elif t == 3:
                    act['spec'] = draw(g.rj_pdu)
                elif t in (5, 6):
                    act['spec'] = dict(draw(g.rel_pdu), t=t)
                else:
                    act['spec'] = draw(g.abort_pdu)
            # (two complete messages inside ONE P-DATA-TF are not generated: whether PS3.8 Annex E allows
            #  that is unclear and the library delivers only the first - recorded as an observation)
            if act['a'] == 'pdu' and draw(st.integers(0, 5)) == 0:
                # the peer pauses somewhere inside this PDU; the rest comes later (or never)
                size = len(refpdu.enc_pdu(act['spec']))
                act = {'a': 'head', 'spec': act['spec'], 'cut': draw(st.integers(1, size - 1))}
            # (bytes that are no event yet - part of a PDU - racing a multi-fragment send let one more fragment out per
            #  read; the model's fixed interleaving does not cover that, C03's race part does)
            partial = act['a'] in ('head', 'tail') or getattr(m, 'half', None) is not None
            if draw(st.integers(0, 2)) == 0 and not (partial and racing_multifrag(hist)):
                act['eager'] = True
                if act['a'] in ('pdu', 'head') and draw(st.integers(0, 1)) == 0:
                    act['glue'] = True          # ... in the very same segment as what came before
        else:
            if m.artim_running():
                remaining = ulmodel.ARTIM_SECONDS - (now - m.artim)
                dt = draw(st.sampled_from([0.5, max(0.1, remaining - 1.0), remaining + 1.0, remaining + 30.0]))
            else:
                dt = draw(st.sampled_from([0.5, 5.0, 11.0, 100.0]))
            act = {'a': 'tick', 'dt': float(dt)}
        hist.append(act)
        # advance the generation-time model exactly as the predictor will
        _, m2 = H.predict(role, hist)
        m = m2
        now = H.START + sum(a['dt'] for a in hist if a['a'] == 'tick')
    max_pdu = draw(st.sampled_from(OWN_MAX))
    for i, act in enumerate(hist):
        if act.get('eager') and not eager_ok(hist[:i], max_pdu):
            max_pdu = 65536
            break
    return role, hist, max_pdu


def run_walks(ctx, n, cells_out=None):
    def fn(value):
        role, hist, max_pdu = value
        if not hist:
            return
        pred, model = H.predict(role, hist)
        states, cells, nt = classify(role, hist, pred)
        if cells_out is not None:
            cells_out.update(cells)
        ctx.case((role, hist, max_pdu), nt, labels=['walk', 'role=' + role, 'own-max=%d' % max_pdu, 'len=%d' % (len(hist) // 5 * 5)] +
                 ['reached-Sta%d' % s for s in states],
                 sample={'role': role, 'history': [brief_action(a) for a in hist]})
        sim, obs, pre = H.observe(role, hist, max_pdu=max_pdu, **reception(max_pdu))
        H.compare_racing(PROP, role, hist, pred, sim, obs, {'role': role, 'history': hist, 'max_pdu': max_pdu})
    hyp_search(ctx, walk(), fn, n, name='C05-walk')


def shard_walks(ctx, job):
    quiet_warnings()
    cells = set()
    run_walks(ctx, job['n'], cells)
    ctx.extra['cells'] = set('Sta%d/Evt%d:%s' % (c[0], c[2], c[1]) for c in cells)


def prefixes(role):
    """Canonical histories reaching every protocol state (the DFS depth bound applies from each)."""
    c = convs
    u = lambda spec: {'a': 'user', 'pdu': spec}        # noqa
    p = lambda spec: {'a': 'pdu', 'spec': spec}        # noqa
    if role == 'acceptor':
        est = [p(c.RQ_SPEC), u(c.AC_SPEC)]
        return {
            'Sta2': [], 'Sta2-waited': [{'a': 'tick', 'dt': 6.0}], 'Sta3': [p(c.RQ_SPEC)], 'Sta6': est,
            'Sta6-midmsg': est + [p(PART1)],
            'Sta6-after-msg': est + [p(PART1), p(PART2), p(PART3)],       # a whole data-bearing message was received
            'Sta6-cmd-done': est + [p(MEMPART)],
            'Sta7': est + [u(c.REL_RQ)], 'Sta8': est + [p(c.REL_RQ)],
            'Sta7-midmsg': est + [p(PART1), u(c.REL_RQ)],
            'Sta10': est + [u(c.REL_RQ), p(c.REL_RQ)],
            'Sta12': est + [u(c.REL_RQ), p(c.REL_RQ), p(c.REL_RP)],
            'Sta13-rejected': [p(c.RQ_SPEC), u(c.RJ_SPEC)],
            'Sta13-released': est + [p(c.REL_RQ), u(c.REL_RP)],
            'Sta13-waited': est + [u(c.ABORT_SU), {'a': 'tick', 'dt': 6.0}],
        }
    est = [u(c.RQ_SPEC), p(c.AC_SPEC)]
    return {
        'Sta1': [], 'Sta5': [u(c.RQ_SPEC)], 'Sta6': est,
        'Sta6-sending': est + [{'a': 'user', 'msg': USER_MSG3}],
        'Sta6-after-msg': est + [p(PART1), p(PART2), p(PART3)],
        'Sta7': est + [u(c.REL_RQ)], 'Sta8': est + [p(c.REL_RQ)],
        'Sta7-midmsg': est + [p(PART1), p(PART2), u(c.REL_RQ)],
        'Sta9': est + [u(c.REL_RQ), p(c.REL_RQ)],
        'Sta11': est + [u(c.REL_RQ), p(c.REL_RQ), u(c.REL_RP)],
        'Sta13-aborted': est + [u(c.ABORT_SU)],
    }


class _FullDisk(object):
    """A file whose every write fails (device full)."""

    def __init__(self, exc):
        self._exc = exc

    def write(self, data):
        raise self._exc

    writelines = write

    def seek(self, *a):
        return 0

    def tell(self):
        return 0

    def read(self, *a):
        return b''

    def close(self):
        pass


def run_storage_failures(ctx):
    """The message cannot be received for a LOCAL reason - the application's get_file() fails, or writing the data set
    to the file it gave fails (OSError family: directory gone, descriptor limit, device full; or any other error).  The
    association cannot go on; this is an abort by the provider like any other: A-ABORT PDU to the peer, A-P-ABORT to the
    user, ARTIM, Sta13 - modelled as Evt19 at that PDU."""
    import errno
    from pynetdicom2 import asceprovider
    from pydicom import uid
    c = convs
    ctxs = {1: asceprovider.PContextDef(1, uid.UID(c.VERIF_UID), uid.UID(c.IMPLICIT)),
            3: asceprovider.PContextDef(3, uid.UID(c.STORE_UID), uid.UID(c.IMPLICIT))}
    errors = {'ENOSPC': OSError(errno.ENOSPC, 'No space left on device'), 'ENOENT': FileNotFoundError(errno.ENOENT, 'No such file or directory'),
              'EMFILE': OSError(errno.EMFILE, 'Too many open files'), 'ValueError': ValueError('closed file'),
              'RuntimeError': RuntimeError('storage back end is down')}
    p = lambda spec: {'a': 'pdu', 'spec': spec}        # noqa
    for role in ('acceptor', 'requestor'):
        est = prefixes(role)['Sta6']
        for ename, exc in sorted(errors.items()):
            for where in ('get_file', 'write'):
                def cb(context, command_set, where=where, exc=exc):
                    if where == 'get_file':
                        raise exc
                    return _FullDisk(exc), 0
                hist = est + [p(PART1), p(PART2), p(PART3), {'a': 'tick', 'dt': 2.0}, {'a': 'close'}]
                fail_at = len(est) + (1 if where == 'get_file' else 2)
                model_hist = list(hist)
                model_hist[fail_at] = {'a': 'raw', 'data': c.UNKNOWN_PDU}
                case = {'role': role, 'storage_failure': [ename, where]}
                ctx.case(('storage-failure', role, ename, where), True, labels=['storage-failure', 'where=' + where, 'error=' + ename],
                         sample={'role': role, 'error': ename, 'raised by': where})
                pred, model = H.predict(role, model_hist)
                try:
                    sim, obs, pre = H.observe(role, hist, store_in_file=frozenset([c.STORE_UID]), get_file_cb=cb, accepted_contexts=ctxs)
                    H.compare_racing(PROP, role, hist, pred, sim, obs, case)
                except Violation as v:
                    ctx.fail(v.key + ':storage-failure', v.what + ' [%s raised by %s while a C-STORE data set is being received: '
                             'provider abort (AA-8) expected]' % (ename, where), case)


def alphabet_after(role, prefix):
    pred, model = H.predict(role, prefix)
    started = role == 'acceptor' or any(a['a'] == 'user' for a in prefix)
    if started and model.state == 1 and not model.transport:
        return []
    model.over = started and model.state == 1
    alphabet = user_alphabet(model, role) + net_alphabet(model)
    if model.transport or model.artim_running():
        alphabet += tick_alphabet(model)
    return alphabet


def run(ctx):
    quiet_warnings()
    depth = 3 if ctx.thorough else 2
    ctx.rule = ('exhaustive DFS of all histories of up to %d further steps from each of 26 canonical prefixes that '
                'reach every protocol state (both roles), over the alphabet {7 PDU kinds, complete / first / '
                'continuing / last P-DATA fragments of messages received into a file (runs with own maximum 48 or 0) or in memory, unknown PDU type, peer close, each arriving after quiescence '
                'or back-to-back, 2 s, 6 s and 11.5 s time advances, every user primitive legal in the model state incl. '
                '1- and 3-fragment P-DATA requests}, plus Hypothesis random walks up to 30 steps with generated PDU '
                'contents; local storage failures (get_file / write raising 5 kinds of error) while a data set is received; the peer pausing inside a PDU (first bytes only, rest later or never) with every '
                'primitive / time advance / close meanwhile, from every prefix; every step compared with the executable PS3.8 model; non-trivial = the history reaches '
                'Sta6 or exercises an abnormal action (AA-*, AR-8); distinct by (role, history)' % depth)
    ctx.assumptions = ['reference machine transcribed from PS3.8 Table 9-10 (vf/ulmodel.py)',
                       'whole PDUs per segment except for the explicit pause inside one PDU (general segmentation is C03); time moves only by explicit advances, kept '
                       '>=1 s away from the ARTIM deadline',
                       'order between a write and an indication inside one step is not compared',
                       'a multi-fragment P-DATA request overtaken by a back-to-back peer PDU is modelled as: first '
                       'fragment, peer PDUs, remaining fragments (dropped where undefined)',
                       'transport state compared at the end of each step: after a peer close the provider must '
                       'have closed its own end']
    jobs = []
    for role in ('requestor', 'acceptor'):
        for name, prefix in sorted(prefixes(role).items()):
            for act in alphabet_after(role, prefix):
                variants = [act] + ([dict(act, eager=True)] if act['a'] in H.NET else [])
                for v in variants:
                    own = 65536 if len(jobs) % 2 == 0 else 48
                    if v.get('eager') and not eager_ok(prefix, own):
                        own = 65536
                    jobs.append({'role': role, 'depth': depth - 1, 'prefix': prefix + [v], 'eager': True,
                                 'max_pdu': own})
    # the peer pauses inside a PDU, anything may happen meanwhile (user primitives, time, close), then the rest
    stalls = 0
    for role in ('requestor', 'acceptor'):
        for name, prefix in sorted(prefixes(role).items()):
            pred, model = H.predict(role, prefix)
            if not model.transport:
                continue
            for h in heads(model):
                own = 65536 if stalls % 2 == 0 else 48
                if not eager_ok(prefix, own):
                    own = 65536
                jobs.append({'role': role, 'depth': depth, 'prefix': prefix + [h], 'eager': False, 'max_pdu': own})
                stalls += 1
            # ... and the same with a whole PDU in front of the incomplete one, both in one segment
            for x in net_alphabet(model):
                if x['a'] != 'pdu' or len(refpdu.enc_pdu(x['spec'])) > 4000:
                    continue
                _, model2 = H.predict(role, prefix + [x])
                if not model2.transport:
                    continue
                for h in heads(model2):
                    if h['cut'] < 6:
                        continue
                    jobs.append({'role': role, 'depth': depth - 1, 'prefix': prefix + [x, dict(h, eager=True, glue=True)], 'eager': False,
                                 'max_pdu': 65536})
                    stalls += 1
    parallel(ctx, run_dfs, jobs)
    ctx.label('dfs-jobs', len(jobs))
    ctx.label('stall-jobs', stalls)
    if ctx.thorough:
        parallel(ctx, shard_walks, [{'n': 10000} for _ in range(16)])
    else:
        parallel(ctx, shard_walks, [{'n': 60} for _ in range(8)])
    run_storage_failures(ctx)
    cells = ctx.extra.get('cells', set())
    ctx.extra['cells'] = len(cells)
    ctx.extra['cells_note'] = 'distinct cells of Table 9-10 exercised by some history (of 123 defined)'
    ctx.extra['cells_list'] = sorted(cells)


def replay(case):
    quiet_warnings()
    if case.get('storage_failure'):
        from ..common import Ctx
        sub = Ctx('C05', 'quick', 1)
        run_storage_failures(sub)
        for key, ent in sorted(sub.failures.items()):
            if ent['case'].get('storage_failure') == case['storage_failure'] and ent['case']['role'] == case['role']:
                raise Violation(key, ent['what'], ent['case'])
        return
    run_history(case['role'], case['history'], case.get('max_pdu', 65536))
