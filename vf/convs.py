"""Conversation corpus shared by C03 / C12 / C13: acceptor- and requestor-side conversations as
lists of steps  ('burst', [pdu bytes, ...])  |  ('user', primitive spec)  |  ('close',).

Peer PDUs are produced by the reference encoder (vf/refpdu.py, vf/refcmd.py); user primitives are
described as plain data and built into library objects by `user_prim`.
"""
from __future__ import annotations

from . import refcmd, refpdu, pdugen as g, dimsegen as dg

VERIF_UID = '1.2.840.10008.1.1'
STORE_UID = '1.2.840.10008.5.1.4.1.1.7'
IMPLICIT = '1.2.840.10008.1.2'

RQ_SPEC = {'t': 1, 'r1': 0, 'ver': 1, 'r2': 0, 'called': 'SRV', 'calling': 'CLI', 'r3': [0] * 8,
           'items': [{'t': 0x10, 'r': 0, 'name': '1.2.840.10008.3.1.1.1'},
                     {'t': 0x20, 'r1': 0, 'id': 1, 'r2': 0, 'r3': 0, 'r4': 0,
                      'abs': {'r': 0, 'name': VERIF_UID}, 'ts': [{'r': 0, 'name': IMPLICIT}]},
                     {'t': 0x20, 'r1': 0, 'id': 3, 'r2': 0, 'r3': 0, 'r4': 0,
                      'abs': {'r': 0, 'name': STORE_UID}, 'ts': [{'r': 0, 'name': IMPLICIT}]},
                     {'t': 0x50, 'r': 0, 'subs': [{'t': 0x51, 'r': 0, 'max': 16384},
                                                  {'t': 0x52, 'r': 0, 'uid': '1.2.3.4'}]}]}
AC_SPEC = {'t': 2, 'r1': 0, 'ver': 1, 'r2': 0, 'called': 'SRV', 'calling': 'CLI', 'r3': [0] * 8,
           'items': [{'t': 0x10, 'r': 0, 'name': '1.2.840.10008.3.1.1.1'},
                     {'t': 0x21, 'r1': 0, 'id': 1, 'r2': 0, 'result': 0, 'r3': 0, 'ts': {'r': 0, 'name': IMPLICIT}},
                     {'t': 0x21, 'r1': 0, 'id': 3, 'r2': 0, 'result': 0, 'r3': 0, 'ts': {'r': 0, 'name': IMPLICIT}},
                     {'t': 0x50, 'r': 0, 'subs': [{'t': 0x51, 'r': 0, 'max': 16384}]}]}
RJ_SPEC = {'t': 3, 'r1': 0, 'r2': 0, 'result': 1, 'source': 1, 'reason': 3}
REL_RQ = {'t': 5, 'r1': 0, 'r2': 0}
REL_RP = {'t': 6, 'r1': 0, 'r2': 0}
ABORT_SU = {'t': 7, 'r1': 0, 'r2': 0, 'r3': 0, 'source': 0, 'reason': 0}
ABORT_SP = {'t': 7, 'r1': 0, 'r2': 0, 'r3': 0, 'source': 2, 'reason': 2}


def echo_rq(msg_id=1, pc_id=1):
    cmd = refcmd.encode({0x0002: VERIF_UID, 0x0100: 0x0030, 0x0110: msg_id, 0x0800: 0x0101})
    return {'t': 4, 'r': 0, 'pdvs': [{'id': pc_id, 'data': b'\x03' + cmd}]}


def echo_rsp(msg_id=1, pc_id=1, status=0):
    cmd = refcmd.encode({0x0002: VERIF_UID, 0x0100: 0x8030, 0x0120: msg_id, 0x0800: 0x0101, 0x0900: status})
    return {'t': 4, 'r': 0, 'pdvs': [{'id': pc_id, 'data': b'\x03' + cmd}]}


def store_rq_pdus(nfrag_data=2, pc_id=3, msg_id=7, one_pdu=False, frag=40):
    """C-STORE-RQ as 1 command PDU + nfrag_data data PDUs (or everything in one PDU)."""
    data = dg.patterned(frag * (nfrag_data - 1) + 11, 3)
    cmd = refcmd.encode({0x0002: STORE_UID, 0x0100: 0x0001, 0x0110: msg_id, 0x0700: 0, 0x0800: 0x0001,
                         0x1000: '1.2.3.4.5.6'})
    pdvs = [{'id': pc_id, 'data': b'\x03' + cmd}]
    chunks = [data[i:i + frag] for i in range(0, len(data), frag)]
    for i, c in enumerate(chunks):
        pdvs.append({'id': pc_id, 'data': bytes([2 if i == len(chunks) - 1 else 0]) + c})
    if one_pdu:
        return [{'t': 4, 'r': 0, 'pdvs': pdvs}]
    return [{'t': 4, 'r': 0, 'pdvs': [v]} for v in pdvs]


def enc(*specs):
    return [refpdu.enc_pdu(s) for s in specs]


UNKNOWN_PDU = b'\x0b\x00\x00\x00\x00\x04\xde\xad\xbe\xef'


def corpus():
    """name -> (role, steps)."""
    c = {}
    c['acc-store-release'] = ('acceptor', [
        ('burst', enc(RQ_SPEC)), ('user', {'pdu': AC_SPEC}),
        ('burst', enc(*store_rq_pdus(2)) + enc(REL_RQ)), ('user', {'pdu': REL_RP}), ('close',)])
    c['acc-echo-echo-abort'] = ('acceptor', [
        ('burst', enc(RQ_SPEC)), ('user', {'pdu': AC_SPEC}),
        ('burst', enc(echo_rq(1), echo_rq(2))), ('user', {'msg': [echo_rsp(1)]}), ('user', {'msg': [echo_rsp(2)]}),
        ('burst', enc(ABORT_SU))])
    c['acc-rq-then-abort'] = ('acceptor', [('burst', enc(RQ_SPEC, ABORT_SP))])
    c['acc-reject'] = ('acceptor', [('burst', enc(RQ_SPEC)), ('user', {'pdu': RJ_SPEC}), ('close',)])
    c['acc-2pdv-unknown'] = ('acceptor', [
        ('burst', enc(RQ_SPEC)), ('user', {'pdu': AC_SPEC}),
        ('burst', enc(*store_rq_pdus(2, one_pdu=True)) + [UNKNOWN_PDU]), ('close',)])
    c['acc-unknown-first'] = ('acceptor', [('burst', [UNKNOWN_PDU]), ('close',)])
    c['acc-peer-release-collision'] = ('acceptor', [
        ('burst', enc(RQ_SPEC)), ('user', {'pdu': AC_SPEC}), ('user', {'pdu': REL_RQ}),
        ('burst', enc(REL_RQ, REL_RP)), ('user', {'pdu': REL_RP}), ('close',)])
    c['acc-echo-abort-close'] = ('acceptor', [
        ('burst', enc(RQ_SPEC)), ('user', {'pdu': AC_SPEC}), ('burst', enc(echo_rq(1), ABORT_SP)), ('close',)])
    c['acc-rq-abort-close'] = ('acceptor', [('burst', enc(RQ_SPEC, ABORT_SP)), ('close',)])
    c['req-ac-data-release-close'] = ('requestor', [
        ('user', {'pdu': RQ_SPEC}), ('burst', enc(AC_SPEC)), ('user', {'pdu': REL_RQ}),
        ('burst', enc(echo_rsp(4), REL_RP)), ('close',)])
    c['req-echo-release'] = ('requestor', [
        ('user', {'pdu': RQ_SPEC}), ('burst', enc(AC_SPEC)), ('user', {'msg': [echo_rq(1)]}),
        ('burst', enc(echo_rsp(1), echo_rsp(1))), ('user', {'pdu': REL_RQ}), ('burst', enc(REL_RP))])
    c['req-rejected'] = ('requestor', [('user', {'pdu': RQ_SPEC}), ('burst', enc(RJ_SPEC))])
    c['req-ac-abort'] = ('requestor', [('user', {'pdu': RQ_SPEC}), ('burst', enc(AC_SPEC, ABORT_SP))])
    c['req-data-while-releasing'] = ('requestor', [
        ('user', {'pdu': RQ_SPEC}), ('burst', enc(AC_SPEC)), ('user', {'pdu': REL_RQ}),
        ('burst', enc(echo_rsp(9), REL_RP))])
    # the local user aborts while the peer is in the middle of a pipelined transfer: what was already under way
    # keeps arriving (and is ignored, AA-6) until the peer notices and closes
    c['acc-user-abort-peer-continues'] = ('acceptor', [
        ('burst', enc(RQ_SPEC)), ('user', {'pdu': AC_SPEC}), ('burst', enc(echo_rq(1))), ('user', {'pdu': ABORT_SU}),
        ('burst', enc(*store_rq_pdus(3)) + enc(echo_rq(2))), ('close',)])
    c['req-user-abort-peer-continues'] = ('requestor', [
        ('user', {'pdu': RQ_SPEC}), ('burst', enc(AC_SPEC)), ('user', {'pdu': ABORT_SU}),
        ('burst', enc(echo_rsp(1), echo_rsp(2), REL_RQ)), ('close',)])
    # a header announcing a PDU of almost 4 GiB, of which only a few bytes ever come: nothing to act on, the
    # provider just keeps waiting until the peer goes away
    c['acc-giant-length-never-completed'] = ('acceptor', [
        ('burst', enc(RQ_SPEC)), ('user', {'pdu': AC_SPEC}),
        ('burst', [b'\x04\x00\xff\xff\xff\xf0' + b'\x00\x00\x00\x10\x01\x03' + b'ABCDEFGHIJKLMNOPQR']), ('close',)])
    # a C-STORE-RQ whose COMMAND SET is itself split over two P-DATA-TF PDUs (a peer with a small maximum length),
    # then its data set
    cmd = refcmd.encode({0x0002: STORE_UID, 0x0100: 0x0001, 0x0110: 7, 0x0700: 0, 0x0800: 0x0001, 0x1000: '1.2.3.4.5.6'})
    c['acc-fragmented-command'] = ('acceptor', [
        ('burst', enc(RQ_SPEC)), ('user', {'pdu': AC_SPEC}),
        ('burst', enc({'t': 4, 'r': 0, 'pdvs': [{'id': 3, 'data': b'\x01' + cmd[:20]}]},
                      {'t': 4, 'r': 0, 'pdvs': [{'id': 3, 'data': b'\x03' + cmd[20:]}]},
                      {'t': 4, 'r': 0, 'pdvs': [{'id': 3, 'data': b'\x02' + b'DATASETBYTES'}]}, REL_RQ)),
        ('user', {'pdu': REL_RP}), ('close',)])
    # an unrecognised PDU and the peer's own A-ABORT right behind it (no close: the A-ABORT is what ends it)
    c['acc-unknown-then-abort'] = ('acceptor', [
        ('burst', enc(RQ_SPEC)), ('user', {'pdu': AC_SPEC}), ('burst', [UNKNOWN_PDU] + enc(ABORT_SU))])
    # the local user is sending a five-fragment message when the peer aborts
    c['req-sending-peer-aborts'] = ('requestor', [
        ('user', {'pdu': RQ_SPEC}), ('burst', enc(AC_SPEC)), ('user', {'msg': store_rq_pdus(4, pc_id=3)}),
        ('burst', enc(ABORT_SP)), ('close',)])
    c['req-release-collision'] = ('requestor', [
        ('user', {'pdu': RQ_SPEC}), ('burst', enc(AC_SPEC)), ('user', {'pdu': REL_RQ}),
        ('burst', enc(REL_RQ)), ('user', {'pdu': REL_RP}), ('burst', enc(REL_RP))])
    return c


def user_prim(desc):
    """Library primitive for a ('user', desc) step."""
    if 'pdu' in desc:
        obj = g.build(desc['pdu'])
        if desc['pdu']['t'] == 1:
            obj.called_presentation_address = ('peer.example', 104)
        return obj
    return [g.build(p) for p in desc['msg']]


def describe_ind(obj):
    """Plain-data form of an indication (PDU object or (message, pc_id))."""
    if isinstance(obj, tuple):
        from pynetdicom2 import dsutils
        msg, pc_id = obj
        ds = msg.data_set
        if ds is not None and not isinstance(ds, bytes):
            pos = ds.tell()
            content = ds.read()
            ds.seek(pos)
            ds = content
        return {'dimse': type(msg).__name__, 'pc_id': pc_id,
                'command': dsutils.encode(msg.command_set, True, True), 'data': ds}
    if hasattr(obj, 'pdu_type'):
        return g.norm_ae(g.extract(obj))
    return {'unexpected': repr(obj)}
