"""C12 - no byte sequence from the peer can crash or hang the provider (fuzzing on simnet)."""
from __future__ import annotations

import hashlib
import os
import struct
import subprocess
import sys
import warnings

from hypothesis import strategies as st

from .. import convs, mutate, pdugen as g, refcmd, refpdu, simnet
from ..common import Violation, HarnessError, hyp_search, parallel, lib_frame, VERIF_DIR, REPO, DEPS, quiet_warnings

LEVEL = 'exploration'

U = lambda spec: ('user', {'pdu': spec})      # noqa
B = lambda *specs: ('burst', convs.enc(*specs))  # noqa

# name -> (role, prefix steps, user engaged and has not ended the association?)
_STORE_PDUS = [refpdu.enc_pdu(p) for p in convs.store_rq_pdus(3, pc_id=3)]
_FIND_CMD = refcmd.encode({0x0002: '1.2.840.10008.5.1.4.1.2.1.1', 0x0100: 0x0020, 0x0110: 5, 0x0700: 0, 0x0800: 0x0001})
_FIND_PDUS = [refpdu.enc_pdu({'t': 4, 'r': 0, 'pdvs': [{'id': 1, 'data': h + d}]})
              for h, d in ((b'\x03', _FIND_CMD), (b'\x00', b'\x08\x00\x52\x00\x08\x00\x00\x00PATI'), (b'\x02', b'ENT '))]

STATES = {
    'Sta2': ('acceptor', [], False),
    # like Sta2, but the local user answers whatever request gets indicated the way AssociationAcceptor.accept does:
    # with an A-ASSOCIATE-AC that repeats the peer's titles, application context and user information
    'Sta2-accepting': ('acceptor', [], False),
    # ... and then serves: a C-ECHO-RQ follows, which the local user answers with a C-ECHO-RSP that the library
    # fragments for the maximum length negotiated from the peer's (possibly absurd) request
    'Sta2-serving': ('acceptor', [], False),
    'Sta3': ('acceptor', [B(convs.RQ_SPEC)], True),
    'Sta5': ('requestor', [U(convs.RQ_SPEC)], True),
    'Sta6-acc': ('acceptor', [B(convs.RQ_SPEC), U(convs.AC_SPEC)], True),
    'Sta6-req': ('requestor', [U(convs.RQ_SPEC), B(convs.AC_SPEC)], True),
    # established, and the local user is in the middle of sending a three-fragment message when the bytes arrive
    'Sta6-sending': ('acceptor', [B(convs.RQ_SPEC), U(convs.AC_SPEC)], True),
    'Sta7': ('requestor', [U(convs.RQ_SPEC), B(convs.AC_SPEC), U(convs.REL_RQ)], True),
    'Sta8': ('acceptor', [B(convs.RQ_SPEC), U(convs.AC_SPEC), B(convs.REL_RQ)], True),
    'Sta13': ('acceptor', [B(convs.RQ_SPEC), U(convs.AC_SPEC), U(convs.ABORT_SU)], False),
    # a DIMSE message half received / the release-collision states
    'Sta6-midmsg': ('acceptor', [B(convs.RQ_SPEC), U(convs.AC_SPEC),
                                 ('burst', [refpdu.enc_pdu({'t': 4, 'r': 0, 'pdvs': [{'id': 3, 'data': b'\x01' + b'\x00\x00\x00\x00\x04\x00\x00\x00'}]})])], True),
    # ... the command set of a data-bearing message completely received, its data set outstanding or begun
    #     (received into a file for the storage class, in memory for the query)
    'Sta6-cmd-file': ('acceptor', [B(convs.RQ_SPEC), U(convs.AC_SPEC), ('burst', [_STORE_PDUS[0]])], True),
    'Sta6-data-file': ('acceptor', [B(convs.RQ_SPEC), U(convs.AC_SPEC), ('burst', _STORE_PDUS[:2])], True),
    'Sta6-cmd-mem': ('acceptor', [B(convs.RQ_SPEC), U(convs.AC_SPEC), ('burst', [_FIND_PDUS[0]])], True),
    'Sta6-data-mem': ('acceptor', [B(convs.RQ_SPEC), U(convs.AC_SPEC), ('burst', _FIND_PDUS[:2])], True),
    'Sta9': ('requestor', [U(convs.RQ_SPEC), B(convs.AC_SPEC), U(convs.REL_RQ), B(convs.REL_RQ)], True),
    'Sta10': ('acceptor', [B(convs.RQ_SPEC), U(convs.AC_SPEC), U(convs.REL_RQ), B(convs.REL_RQ)], True),
    'Sta11': ('requestor', [U(convs.RQ_SPEC), B(convs.AC_SPEC), U(convs.REL_RQ), B(convs.REL_RQ), U(convs.REL_RP)], True),
    'Sta12': ('acceptor', [B(convs.RQ_SPEC), U(convs.AC_SPEC), U(convs.REL_RQ), B(convs.REL_RQ), B(convs.REL_RP)], True),
}
STATE_NAMES = sorted(STATES)
EXPECT_STATE = {'Sta2': 2, 'Sta2-accepting': 2, 'Sta2-serving': 2, 'Sta3': 3, 'Sta5': 5, 'Sta6-acc': 6, 'Sta6-req': 6, 'Sta6-sending': 6, 'Sta7': 7, 'Sta8': 8, 'Sta13': 13,
                'Sta6-midmsg': 6, 'Sta6-cmd-file': 6, 'Sta6-data-file': 6, 'Sta6-cmd-mem': 6, 'Sta6-data-mem': 6, 'Sta9': 9, 'Sta10': 10, 'Sta11': 11, 'Sta12': 12}


def contexts():
    from pynetdicom2 import asceprovider
    from pydicom import uid
    return {1: asceprovider.PContextDef(1, uid.UID(convs.VERIF_UID), uid.UID(convs.IMPLICIT)),
            3: asceprovider.PContextDef(3, uid.UID(convs.STORE_UID), uid.UID(convs.IMPLICIT))}


def accept_if_indicated(sim):
    from pynetdicom2 import pdu
    inds = sim.indications()
    if sim.state() != 3 or not inds or getattr(inds[-1], 'pdu_type', None) != 1:
        return None
    rq = inds[-1]
    items = [i for i in rq.variable_items if isinstance(i, pdu.ApplicationContextItem)][:1]
    for i in rq.variable_items:
        if isinstance(i, pdu.PresentationContextItemRQ):
            ts = i.ts_sub_items[0] if i.ts_sub_items else pdu.TransferSyntaxSubItem('')
            items.append(pdu.PresentationContextItemAC(i.context_id, 0, ts))
    items += [i for i in rq.variable_items if isinstance(i, pdu.UserInformationItem)][:1]
    return pdu.AAssociateAcPDU(called_ae_title=rq.called_ae_title, calling_ae_title=rq.calling_ae_title,
                               variable_items=items)


def answer_echo(sim):
    """What verification_scp + Association.send do for the last indicated C-ECHO-RQ: a C-ECHO-RSP handed to the
    provider as the library's own fragment generator, for the maximum length AssociationAcceptor.accept arrives at."""
    from pynetdicom2 import dimsemessages
    inds = sim.indications()
    rqs = [i for i in inds if getattr(i, 'pdu_type', None) == 1]
    echoes = [i for i in inds if isinstance(i, tuple) and getattr(i[0], 'command_field', None) == 0x0030]
    if sim.state() != 6 or not rqs or not echoes:
        return None
    peer_max = None
    for item in rqs[-1].variable_items:
        for sub in getattr(item, 'user_data', []) or []:
            if getattr(sub, 'item_type', None) == 0x51 and peer_max is None:
                peer_max = sub.maximum_length_received
    own = 65536
    limit = peer_max if peer_max and own > peer_max else own
    msg, pc_id = echoes[-1]
    rsp = dimsemessages.CEchoRSPMessage()
    rsp.message_id_being_responded_to = msg.message_id
    rsp.sop_class_uid = msg.sop_class_uid
    rsp.status = 0
    rsp.set_length()
    return rsp.encode(pc_id, limit)


def segment(stream, mode):
    if mode == 0 or len(stream) < 2:
        return [stream]
    if mode == 1:
        return [stream[i:i + 1] for i in range(len(stream))] if len(stream) <= 600 else \
            [stream[i:i + 7] for i in range(0, len(stream), 7)]
    if mode == 2:
        return [stream[:5], stream[5:]]
    k = 3 + mode
    return [stream[i:i + k] for i in range(0, len(stream), k)]


def run_stream(state, stream, mode=0, file_backed=True, gone=False):
    """Execute one fuzz case; raises Violation if an oracle clause fails.  Returns info dict."""
    role, prefix, engaged = STATES[state]
    case = {'state': state, 'stream': stream, 'mode': mode}
    if gone:
        case['gone'] = True
    actions = []
    for s in prefix:
        if s[0] == 'burst':
            actions += [{'k': 'seg', 'data': b, 'eager': False} for b in s[1]]
        else:
            actions.append({'k': 'user', 'prim': convs.user_prim(s[1])})
    n_prefix = len(actions)
    segs = segment(stream, mode)
    if state == 'Sta6-sending':
        actions.append({'k': 'user', 'prim': convs.user_prim({'msg': convs.store_rq_pdus(2, pc_id=3)})})
    first_hostile = len(actions)
    for i, sg in enumerate(segs):
        actions.append({'k': 'seg', 'data': sg, 'eager': i > 0 or state == 'Sta6-sending'})
    if state in ('Sta2-accepting', 'Sta2-serving'):
        actions.append({'k': 'user', 'fn': accept_if_indicated})
    if state == 'Sta2-serving':
        actions.append({'k': 'seg', 'data': refpdu.enc_pdu(convs.echo_rq(1)), 'eager': False})
        actions.append({'k': 'user', 'fn': answer_echo})
    actions += [{'k': 'close', 'eager': False}, {'k': 'tick', 'dt': 11.5}, {'k': 'tick', 'dt': 11.5}]
    kw = {}
    if file_backed:
        from pynetdicom2 import applicationentity
        ae = applicationentity.ClientAE('VERIF')
        kw = dict(store_in_file=frozenset([convs.STORE_UID]), get_file_cb=ae.get_file,
                  accepted_contexts=contexts())
    # (a third of the cases with a small own maximum PDU length: reads of 48 bytes, and every ordinary P-DATA-TF of the
    #  peer is longer than what this side announced - tolerated or refused, it is handled in an orderly way)
    if (len(stream) + mode) % 3 == 1:
        kw['max_pdu'] = 48
    if gone:
        # the peer sent its bytes and went away (crashed, reset the connection): they are still delivered, but whatever
        # the provider writes from then on fails with ECONNRESET - its own A-ABORT included
        kw['write_fault_from'] = first_hostile
    sim = simnet.Sim(role, actions, budget=6000 + 60 * len(actions) + 8 * len(stream) + (len(stream) // 6 if 'max_pdu' in kw else 0), **kw)
    sim.run()
    # state reached by the prefix (sanity of the harness, not of the library)
    snaps = [s for s in sim.snaps if s['next'] == n_prefix]
    out = sim.outcome
    # (1) the loop must not die
    if out[0] == 'exception':
        raise Violation('C12:loop-died:%s' % lib_frame(out[1]),
                        '%s: provider loop died with %r' % (state, out[1]), case)
    # (2) no hang / livelock
    if out[0] == 'hang':
        raise Violation('C12:hang', '%s: %s' % (state, out[1]), case)
    if snaps and snaps[0]['state'] != EXPECT_STATE[state]:
        raise HarnessError('prefix for %s reached Sta%s' % (state, snaps[0]['state']))
    # (3) whatever the library wrote is a sequence of well-formed PDUs
    wire = sim.wire()
    try:
        pdus = refpdu.parse_stream(wire)
    except refpdu.RefError as exc:
        raise Violation('C12:wire-malformed', '%s: bytes written by the library do not parse: %s' % (state, exc), case)
    # (3b) once the provider has aborted (A-ABORT written), the association is over for it: nothing but further
    #      A-ABORTs goes out and nothing but the abort is indicated
    aborted = False
    for e in sim.log:
        if e[0] == 'send' and e[1][:1]:
            if e[1][0] == 7:
                aborted = True
            elif aborted:
                raise Violation('C12:activity-after-abort:wire', '%s: after sending A-ABORT the provider went on and wrote a PDU of '
                                'type %02XH' % (state, e[1][0]), case)
        elif e[0] == 'ind' and aborted and getattr(e[1], 'pdu_type', None) != 7:
            what = 'a DIMSE message' if isinstance(e[1], tuple) else 'PDU type %r' % getattr(e[1], 'pdu_type', None)
            raise Violation('C12:activity-after-abort:indication', '%s: after sending A-ABORT the provider went on and indicated %s '
                            'to the local user' % (state, what), case)
    # (4) idle and closed at the end
    fin = sim.final()
    if fin['state'] != 1 or not fin['closed'] or not fin['sock_none']:
        raise Violation('C12:not-idle', '%s: after the peer closed and ARTIM passed: state Sta%s, closed=%s'
                        % (state, fin['state'], fin['closed']), case)
    # (5) an engaged user is told the association is gone
    inds = sim.indications()
    kinds = [getattr(i, 'pdu_type', 'dimse') for i in inds]
    if engaged:
        terminal = [k for k in kinds if k in (7, 3, 6)]
        if not terminal:
            raise Violation('C12:user-not-told', '%s: user saw %r, no abort/reject/release confirmation' % (state, kinds), case)
    # (6) certainly-undecodable first frame => A-ABORT (+ provider abort indication)
    frames, rest = refpdu.split_stream(stream)
    hostile_first = bool(frames) and (mutate.certainly_undecodable(frames[0]) or
                                      (mutate.invalid_pdata(frames[0]) and state != 'Sta13'))
    if hostile_first and not gone:
        # PDUs written after the prefix
        npre = {'Sta2': 0, 'Sta2-accepting': 0, 'Sta2-serving': 0, 'Sta3': 0, 'Sta5': 1, 'Sta6-acc': 1, 'Sta6-req': 1, 'Sta6-sending': 1, 'Sta7': 2, 'Sta8': 1, 'Sta13': 2,
                'Sta6-midmsg': 1, 'Sta6-cmd-file': 1, 'Sta6-data-file': 1, 'Sta6-cmd-mem': 1, 'Sta6-data-mem': 1, 'Sta9': 2, 'Sta10': 2, 'Sta11': 3, 'Sta12': 2}[state]
        after = pdus[npre:]
        if state == 'Sta6-sending':
            # fragments of the message being sent may precede the abort; nothing may follow it
            while after and after[0]['t'] == 4:
                after = after[1:]
        if not after or after[0]['t'] != 7:
            raise Violation('C12:no-abort', '%s: undecodable PDU (type %02XH, %d body bytes) not answered with A-ABORT; '
                            'wrote %r' % (state, frames[0][0], len(frames[0]) - 6, [p['t'] for p in after]), case)
        if engaged and 7 not in kinds:
            raise Violation('C12:no-abort-indication', '%s: undecodable PDU, user saw %r' % (state, kinds), case)
    rejected = 0
    for f in frames:
        try:
            refpdu.parse_pdu(f)
        except refpdu.RefError:
            rejected += 1
    return {'frames': len(frames), 'rejected': rejected, 'hostile_first': hostile_first, 'points': sim.points}


def do_case(ctx, state, stream, mode, label, name='', gone=False):
    key = (state, hashlib.sha1(stream).hexdigest(), mode) + (('gone',) if gone else ())
    try:
        info = run_stream(state, stream, mode, gone=gone)
    except Violation as v:
        ctx.fail(v.key, v.what, v.case)
        ctx.case(key, True, labels=[label, 'state=' + state, 'violating'])
        return
    ctx.case(key, info['rejected'] > 0, labels=[label, 'state=' + state] +
             (['undecodable-first'] if info['hostile_first'] else []),
             sample={'state': state, 'mutator': name, 'stream': stream, 'mode': mode})


def corpus_streams():
    out = []
    for bname, raw in mutate.base_pdus():
        for mname, m in mutate.mutants_of(raw):
            out.append(('%s:%s' % (bname, mname), m))
    for name, raw in mutate.hostile_pdata():
        out.append(('pdata:' + name, raw))
        out.append(('pdata:' + name + '+echo', raw + refpdu.enc_pdu(convs.echo_rq(2))))
        if name.startswith(('valid-then', 'two-valid')):
            out.append(('pdata:' + name + '+release', raw + refpdu.enc_pdu(convs.REL_RQ)))
    out.append(('unknown-type', convs.UNKNOWN_PDU))
    out.append(('zero-type', b'\x00' * 10))
    out.append(('zero-header', b'\x00' * 6))
    out.append(('huge-length', b'\x04\x00\xff\xff\xff\xff' + b'\x00' * 20))
    out.append(('short-abort', b'\x07\x00\x00\x00\x00\x02\x00\x00'))
    out.append(('short-rq', b'\x01\x00\x00\x00\x00\x0a' + b'\x00' * 10))
    # association requests whose text fields are LARGE and not valid UTF-8 (each bad byte may become several when a
    # lenient decoder replaces it and the acceptor echoes the field)
    for field, spec_of in (('implementation-version', lambda z: {'t': 0x55, 'r': 0, 'name': z}),
                           ('implementation-class', lambda z: {'t': 0x52, 'r': 0, 'uid': z}),
                           ('identity-primary', lambda z: {'t': 0x58, 'r': 0, 'type': 1, 'rsp': 0, 'prim': z, 'sec': ''}),
                           ('role-uid', lambda z: {'t': 0x54, 'r': 0, 'uid': z, 'scu': 1, 'scp': 0})):
        for n in (22000, 40000):
            z = 'Z' * n
            rq = dict(convs.RQ_SPEC, items=convs.RQ_SPEC['items'][:3] + [
                {'t': 0x50, 'r': 0, 'subs': [{'t': 0x51, 'r': 0, 'max': 16384}, spec_of(z)]}])
            raw = refpdu.enc_pdu(rq)
            for bad in (b'\xff', b'\xc3'):
                out.append(('rq-huge-invalid-%s-%d-%02x' % (field, n, bad[0]), raw.replace(z.encode(), bad * n)))
    ctx_name = '9' * 30000
    rq = dict(convs.RQ_SPEC, items=[{'t': 0x10, 'r': 0, 'name': ctx_name}] + convs.RQ_SPEC['items'][1:])
    out.append(('rq-huge-invalid-application-context', refpdu.enc_pdu(rq).replace(ctx_name.encode(), b'\xfe' * 30000)))
    # valid traffic, but a lot of it at once: the local user has not fetched anything yet when the peer is done
    echo = refpdu.enc_pdu(convs.echo_rq(1))
    out.append(('flood-300-echo', echo * 300))
    out.append(('flood-600-echo+garbage', echo * 600 + convs.UNKNOWN_PDU))
    out.append(('flood-1500-echo', echo * 1500))
    # thousands of the smallest PDUs there are, in one burst (whatever the state makes of each: ignored, invalid, an event)
    for n in (1500, 5000):
        out.append(('tiny-flood-empty-pdata-%d' % n, b'\x04\x00\x00\x00\x00\x00' * n))
        out.append(('tiny-flood-release-rq-%d' % n, refpdu.enc_pdu(convs.REL_RQ) * n))
        out.append(('tiny-flood-release-rp-%d' % n, refpdu.enc_pdu(convs.REL_RP) * n))
        out.append(('tiny-flood-unknown-type-%d' % n, b'\x09\x00\x00\x00\x00\x00' * n))
        out.append(('tiny-flood-one-byte-pdv-%d' % n, b'\x04\x00\x00\x00\x00\x06\x00\x00\x00\x02\x01\x00' * n))
    return out


def run_mutators(ctx, job):
    quiet_warnings()
    streams = corpus_streams()
    for i, (name, stream) in enumerate(streams):
        if i % job['of'] != job['part']:
            continue
        for si, state in enumerate(STATE_NAMES):
            if name.startswith('flood-') and state not in ('Sta6-acc', 'Sta6-req', 'Sta7', 'Sta2-accepting'):
                continue
            if name.startswith('rq-huge-invalid') and state not in ('Sta2', 'Sta2-accepting', 'Sta2-serving', 'Sta6-acc'):
                continue
            if name.startswith('tiny-flood-'):
                if not job['all_states'] and (name.endswith('-5000') or (i + si) % 2):
                    continue
                do_case(ctx, state, stream, 0, 'mutator:' + name.rsplit('-', 1)[0], name)
                continue
            if not job['all_states'] and (i + si) % 2 and not name.startswith(('flood-', 'rq-huge-invalid')):
                continue
            do_case(ctx, state, stream, (i + si) % 4, 'mutator:' + name.split(':')[-1].split('@')[0].split('=')[0], name)
            if len(stream) < 4000 and (job['all_states'] or (i + si) % 3 == 0):
                # the same bytes from a peer that is gone by the time the provider answers: every write fails
                do_case(ctx, state, stream, (i + si) % 4, 'mutator:' + name.split(':')[-1].split('@')[0].split('=')[0], name, gone=True)


def run_random(ctx, n):
    bases = [raw for _, raw in mutate.base_pdus()]
    hostile = [raw for _, raw in mutate.hostile_pdata()]

    @st.composite
    def stream(draw):
        parts = []
        for _ in range(draw(st.integers(1, 4))):
            kind = draw(st.integers(0, 5))
            if kind == 0:
                parts.append(draw(st.binary(min_size=0, max_size=60)))
            elif kind == 1:
                parts.append(draw(st.sampled_from(bases)))
            elif kind == 2:
                parts.append(draw(st.sampled_from(hostile)))
            elif kind == 3:
                raw = bytearray(draw(st.sampled_from(bases + hostile)))
                for _ in range(draw(st.integers(1, 4))):
                    pos = draw(st.integers(0, len(raw) - 1))
                    raw[pos] = draw(st.integers(0, 255))
                parts.append(bytes(raw))
            elif kind == 4:
                body = draw(st.binary(min_size=0, max_size=40))
                parts.append(bytes([draw(st.integers(0, 9)), 0]) + struct.pack('>I', len(body)) + body)
            else:
                parts.append(refpdu.enc_pdu(draw(g.any_pdu(strict=True, free_order=True, allow_big=False))))
        return b''.join(parts)

    strat = st.tuples(st.sampled_from(STATE_NAMES), stream(), st.integers(0, 6), st.integers(0, 3))

    def fn(value):
        state, data, mode, g = value
        gone = g == 0
        info = run_stream(state, data, mode, gone=gone)
        ctx.case((state, hashlib.sha1(data).hexdigest(), mode, gone), info['rejected'] > 0,
                 labels=['random', 'state=' + state] + (['peer gone: provider writes fail'] if gone else []),
                 sample={'state': state, 'stream': data, 'mode': mode, 'gone': gone})
    hyp_search(ctx, strat, fn, n, name='C12-random', max_buckets=8)


def shard_random(ctx, job):
    quiet_warnings()
    run_random(ctx, job['n'])


# ------------------------------------------------------------------------------------------
# atheris campaign (thorough tier): coverage-guided, oracle inside the target

ATHERIS_TARGET = r'''
import os, sys, warnings
sys.dont_write_bytecode = True
quiet_warnings()
sys.path.insert(0, %(verif)r)
sys.path.insert(1, %(deps)r)
os.environ['VERIF_REPO'] = %(repo)r
import atheris
from vf import common
common.bootstrap()
with atheris.instrument_imports(include=['pynetdicom2']):
    import pynetdicom2.pdu, pynetdicom2.userdataitems, pynetdicom2.fsm, pynetdicom2.dulprovider
from vf.checks import c12
import json, hashlib
OUT = %(out)r
count = [0]
def target(data):
    if len(data) < 2:
        return
    state = c12.STATE_NAMES[data[0] %% len(c12.STATE_NAMES)]
    mode = data[1] %% 7
    gone = (data[1] // 7) %% 4 == 3
    count[0] += 1
    try:
        c12.run_stream(state, bytes(data[2:]), mode, gone=gone)
    except common.Violation as v:
        with open(os.path.join(OUT, 'viol_' + hashlib.sha1(v.key.encode()).hexdigest()[:12] + '.json'), 'w') as fh:
            json.dump({'key': v.key, 'what': v.what, 'case': common.to_jsonable(v.case)}, fh)
    finally:
        if count[0] %% 500 == 0:
            open(os.path.join(OUT, 'count'), 'w').write(str(count[0]))
atheris.Setup(sys.argv, target)
try:
    atheris.Fuzz()
finally:
    open(os.path.join(OUT, 'count'), 'w').write(str(count[0]))
'''


def run_atheris(ctx, shards, runs):
    import json
    import shutil
    import tempfile
    try:
        sys.path.insert(1, DEPS)
        import atheris  # noqa
    except Exception as exc:
        ctx.assumptions.append('atheris not importable (%r): coverage-guided part skipped' % (exc,))
        return
    base = tempfile.mkdtemp(prefix='vf_c12_atheris_')
    try:
        procs = []
        for i in range(shards):
            out = os.path.join(base, 'o%d' % i)
            corp = os.path.join(base, 'c%d' % i)
            os.makedirs(out)
            os.makedirs(corp)
            if i % 2 == 0:       # half of the shards start from valid PDUs, half from an empty corpus
                for j, (name, raw) in enumerate(mutate.base_pdus() + mutate.hostile_pdata()):
                    for si in range(len(STATE_NAMES)):
                        with open(os.path.join(corp, 's%d_%d' % (j, si)), 'wb') as fh:
                            fh.write(bytes([si, 0]) + raw)
            script = os.path.join(base, 't%d.py' % i)
            with open(script, 'w') as fh:
                fh.write(ATHERIS_TARGET % {'verif': VERIF_DIR, 'deps': DEPS, 'repo': REPO, 'out': out})
            cmd = [sys.executable, script, corp, '-runs=%d' % runs, '-seed=%d' % (ctx.seed * 1000 + i + 1),
                   '-max_len=600', '-timeout=60', '-print_final_stats=0', '-verbosity=0']
            procs.append((i, out, subprocess.Popen(cmd, stdout=subprocess.DEVNULL, stderr=subprocess.PIPE, text=True,
                                                   env=dict(os.environ, PYTHONHASHSEED='0'))))
        total = 0
        for i, out, p in procs:
            _, err = p.communicate()
            try:
                total += int(open(os.path.join(out, 'count')).read())
            except Exception:
                pass
            for fn_ in os.listdir(out):
                if fn_.startswith('viol_'):
                    v = json.load(open(os.path.join(out, fn_)))
                    from ..common import from_jsonable
                    ctx.fail(v['key'], v['what'] + ' [atheris]', from_jsonable(v['case']))
            if p.returncode not in (0,) and 'Done' not in (err or ''):
                # libFuzzer stops on python exceptions escaping the target: treat as harness problem
                tail = (err or '').strip().splitlines()[-3:]
                ctx.assumptions.append('atheris shard %d ended with rc=%s: %s' % (i, p.returncode, ' | '.join(tail)))
        ctx.evaluations += total
        ctx.label('atheris-executions', total)
        ctx.extra['atheris'] = {'shards': shards, 'runs_per_shard': runs, 'executions': total}
    finally:
        shutil.rmtree(base, ignore_errors=True)


def run(ctx):
    quiet_warnings()
    ctx.rule = ('for each of 14 protocol-state prefixes (Sta2 with a silent and with an accepting local user, 3, 5, 6 both roles and mid-message, 7, 8, the collision states 9-12, 13): structure-aware mutations '
                'of 9 valid PDUs (truncation with/without fixed length, every length field set to 0/1/len-1/len+1/'
                'FFFF/FFFFFFFF, type bytes at every nesting level, control header, context id, non-ASCII bytes), 20 '
                'semantically hostile P-DATA-TF PDUs, Hypothesis random mixes of garbage / valid / bit-flipped PDUs, '
                'floods of 300-1500 valid messages and bursts of 1500 / 5000 of the smallest PDUs there are (empty P-DATA-TF, one-byte PDV, release request / response, unknown type) in every state; random segmentation, then peer close and 2 x 11.5 s; a third of the cases once more with a peer that is GONE once its bytes are out (every write of the provider, its A-ABORT included, fails with ECONNRESET); thorough adds an atheris coverage-guided '
                'campaign; non-trivial = stream contains a complete frame the reference parser rejects; distinct by '
                '(state, SHA-1(stream), segmentation)')
    ctx.assumptions = ['leniently accepted malformed frames are fine as long as the loop survives, output is '
                       'well-formed, the user is told and the provider ends idle and closed',
                       'A-ABORT is demanded only for certainly undecodable frames (unknown type; body shorter than '
                       'the fixed part; a P-DATA-TF PDV without or with an invalid message control header) arriving first in '
                       'the hostile stream',
                       'declared lengths that are never delivered are followed by the peer closing (no 4 GiB streams)']
    nstreams = len(corpus_streams())
    parallel(ctx, run_mutators, [{'part': i, 'of': 16, 'all_states': ctx.thorough} for i in range(16)])
    ctx.label('mutated-streams', nstreams)
    if ctx.thorough:
        parallel(ctx, shard_random, [{'n': 10000} for _ in range(16)])
        run_atheris(ctx, 16, 100000)
    else:
        parallel(ctx, shard_random, [{'n': 120} for _ in range(12)])


def replay(case):
    quiet_warnings()
    run_stream(case['state'], case['stream'], case.get('mode', 0), gone=bool(case.get('gone')))
