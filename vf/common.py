"""Shared plumbing: repo bootstrap, case accounting, failure buckets, evidence, replay files,
known findings, Hypothesis driver with collect-then-shrink.

Exit protocol (see DESIGN.md section 1):
 0 = property held on everything explored (open known findings are printed as KNOWN-FINDING)
 1 = at least one unlisted violation, each printed as `VIOLATION property=<id> replay=<path>`
 2 = harness error (never reported as a violation)
"""
from __future__ import annotations

import hashlib
import json
import logging
import os
import sys
import time
import traceback

VERIF_DIR = os.path.dirname(os.path.dirname(os.path.abspath(__file__)))
REPO = os.environ.get('VERIF_REPO', '/repo')
DEPS = os.path.join(VERIF_DIR, '.deps')
# mutation / seeded-patch runs redirect their outputs so committed evidence is never clobbered
OUT_DIR = os.environ.get('VERIF_OUT', VERIF_DIR)


class HarnessError(BaseException):
    """Something is wrong with the machinery itself (exit 2).  (A BaseException: it may be raised by a scripted peer
    deep inside library code, whose own `except Exception` handlers must not turn it into library behaviour.)"""


class Violation(Exception):
    """The property is violated by a concrete case.

    key  -- root-cause bucket (stable string, used for known-findings matching)
    what -- human readable description
    case -- JSON-able plain data from which `replay` can re-run the case
    """

    def __init__(self, key, what, case=None):
        super().__init__('%s: %s' % (key, what))
        self.key = key
        self.what = what
        self.case = case


def bootstrap():
    """Make `import pynetdicom2` resolve to the working tree under test."""
    sys.dont_write_bytecode = True
    if os.path.isdir(DEPS) and DEPS not in sys.path:
        sys.path.insert(1, DEPS)
    if REPO not in sys.path:
        sys.path.insert(0, REPO)
    for name in [m for m in sys.modules if m == 'pynetdicom2' or m.startswith('pynetdicom2.')]:
        del sys.modules[name]
    try:
        import pynetdicom2  # noqa
    except Exception as exc:  # import failure of the tree under test is a harness error
        raise HarnessError('cannot import pynetdicom2 from %s: %r' % (REPO, exc))
    path = os.path.realpath(pynetdicom2.__file__)
    if not path.startswith(os.path.realpath(REPO) + os.sep):
        raise HarnessError('pynetdicom2 imported from %s, not from %s' % (path, REPO))
    return pynetdicom2


# ------------------------------------------------------------------------------------------
# JSON with bytes

def to_jsonable(obj):
    if isinstance(obj, (bytes, bytearray)):
        return {'__b': bytes(obj).hex()}
    if isinstance(obj, dict):
        return {str(k): to_jsonable(v) for k, v in obj.items()}
    if isinstance(obj, (list, tuple)):
        return [to_jsonable(v) for v in obj]
    if isinstance(obj, (set, frozenset)):
        return sorted(to_jsonable(v) for v in obj)
    if isinstance(obj, (int, float, str, bool)) or obj is None:
        return obj
    return repr(obj)


def from_jsonable(obj):
    if isinstance(obj, dict):
        if set(obj.keys()) == {'__b'}:
            return bytes.fromhex(obj['__b'])
        return {k: from_jsonable(v) for k, v in obj.items()}
    if isinstance(obj, list):
        return [from_jsonable(v) for v in obj]
    return obj


def canon(obj):
    return json.dumps(to_jsonable(obj), sort_keys=True, separators=(',', ':'))


def digest(obj):
    if isinstance(obj, (bytes, bytearray)):
        return hashlib.sha1(bytes(obj)).hexdigest()
    return hashlib.sha1(canon(obj).encode()).hexdigest()


def brief(obj, limit=400):
    """Shorten big byte strings so samples stay readable."""
    if isinstance(obj, (bytes, bytearray)):
        b = bytes(obj)
        if len(b) > 24:
            return '<%d bytes %s..>' % (len(b), b[:12].hex())
        return b.hex()
    if isinstance(obj, dict):
        return {str(k): brief(v) for k, v in obj.items()}
    if isinstance(obj, (list, tuple)):
        if len(obj) > 40:
            return [brief(v) for v in obj[:40]] + ['.. %d more' % (len(obj) - 40)]
        return [brief(v) for v in obj]
    if isinstance(obj, str) and len(obj) > limit:
        return obj[:limit] + '..'
    if isinstance(obj, (int, float, str, bool)) or obj is None:
        return obj
    return repr(obj)


# ------------------------------------------------------------------------------------------

# ------------------------------------------------------------------------------------------
# ambient conditions of the process: none of the properties depends on them, so a share of the cases runs with them
# changed.  Currently: DEBUG logging enabled for every logger, with a handler that formats each record (a library
# that logs must not behave differently because somebody reads its log).

class _Sink(logging.Handler):
    def emit(self, record):
        try:
            record.getMessage()
        except Exception:       # (as logging itself does: a record that cannot be formatted is the application's loss)
            pass


_SINK = _Sink()
_AMBIENT = {'logging': False, 'default': False, 'optimize': bool(sys.flags.optimize), 'warnings': False,
            'warnings_default': False, 'faults': False}
_WARN_FILTER = ('error', None, Warning, __import__('re').compile(r'pynetdicom2(\.|$)'), 0)


_RES_FILTER = ('ignore', None, ResourceWarning, None, 0)


def set_warnings(on):
    """Warnings ISSUED BY THE LIBRARY's own modules are turned into errors (as `-W error` or a test runner's
    filterwarnings=error does); warnings of pydicom and everybody else are left alone."""
    import warnings
    for f in (_WARN_FILTER, _RES_FILTER):
        while f in warnings.filters:
            warnings.filters.remove(f)
    if on:
        warnings.filters.insert(0, _WARN_FILTER)
        # (a file object of the harness collected while a library frame happens to run is not the library's warning)
        warnings.filters.insert(0, _RES_FILTER)
    if hasattr(warnings, '_filters_mutated'):
        warnings._filters_mutated()
    _AMBIENT['warnings'] = bool(on)


def set_logging(on):
    root = logging.getLogger()
    if on and not _AMBIENT['logging']:
        _AMBIENT['saved_level'] = root.level
        root.setLevel(1)
        root.addHandler(_SINK)
    elif not on and _AMBIENT['logging']:
        root.setLevel(_AMBIENT.get('saved_level', logging.WARNING))
        root.removeHandler(_SINK)
    _AMBIENT['logging'] = bool(on)


def provoke_faults():
    """Ambient condition 'a failed operation came before': what an application does now and then - it hands the library
    something that cannot be encoded or decoded (a context ID above 255 behind valid items, a maximum length of 2**32, a
    status of 70000, a data set with Rows=70000, truncated bytes), gets the error, and carries on in the same thread.
    Every one of these operations MAY fail (that is the point) - none of them may leave anything behind that the next,
    valid operation trips over.  Exceptions of the library are swallowed here; only HarnessError passes."""
    from pynetdicom2 import pdu, userdataitems as udi, dimsemessages, dsutils
    impl = lambda: udi.ImplementationClassUIDSubItem('1.2.826.0.1.3680043.9.9999.1')    # noqa: E731

    def pdata():
        pdu.PDataTfPDU([pdu.PresentationDataValueItem(1, b'\x03left-over'), pdu.PresentationDataValueItem(300, b'\x02x')]).encode()

    def user_info():
        pdu.UserInformationItem([impl(), udi.MaximumLengthSubItem(2 ** 32)]).encode()

    def assoc(cls, item):
        def run():
            cls('LEFT-OVER', 'GHOST', [pdu.ApplicationContextItem('1.2.840.10008.3.1.1.1'), item(1), item(301),
                                       pdu.UserInformationItem([udi.MaximumLengthSubItem(16384), impl()])]).encode()
        return run
    rq_item = lambda i: pdu.PresentationContextItemRQ(i, pdu.AbstractSyntaxSubItem('1.2.840.10008.1.1'),      # noqa: E731
                                                       [pdu.TransferSyntaxSubItem('1.2.840.10008.1.2')])
    ac_item = lambda i: pdu.PresentationContextItemAC(i, 0, pdu.TransferSyntaxSubItem('1.2.840.10008.1.2'))      # noqa: E731

    def assoc_user_info(cls):
        def run():
            cls('LEFT-OVER', 'GHOST', [pdu.ApplicationContextItem('1.2.840.10008.3.1.1.1'), rq_item(1) if cls is pdu.AAssociateRqPDU else ac_item(1),
                                       pdu.UserInformationItem([impl(), udi.MaximumLengthSubItem(2 ** 32)])]).encode()
        return run

    def command(field, value):
        def run():
            msg = dimsemessages.CFindRSPMessage()
            msg.message_id_being_responded_to = 1
            msg.sop_class_uid = '1.2.840.10008.5.1.4.1.2.1.1'
            msg.status = 0xFF00
            setattr(msg, field, value)
            msg.set_length()
            list(msg.encode(1, 16384))
        return run

    def data_set():
        import warnings
        from pydicom.dataset import Dataset
        ds = Dataset()
        ds.PatientName = 'GHOST^PATIENT'
        ds.PatientID = 'left-over'
        with warnings.catch_warnings():
            warnings.simplefilter('ignore')
            ds.Rows = 70000
            dsutils.encode(ds, True, True)

    def decodes():
        raw = pdu.AAssociateRqPDU('A', 'B', [pdu.ApplicationContextItem('1.2.840.10008.3.1.1.1'), rq_item(1),
                                             pdu.UserInformationItem([udi.MaximumLengthSubItem(16384), impl()])]).encode()
        for cut in (len(raw) - 3, 80, 9):
            try:
                pdu.AAssociateRqPDU.decode(raw[:cut])
            except Exception:      # noqa
                pass
        dsutils.decode(b'\x10\x00\x10\x00\x40\x00\x00\x00GHOST', True, True)
    # (the one operation that contains a successful encode comes first: nothing after it tidies up by accident)
    for op in (decodes, pdata, user_info, assoc(pdu.AAssociateRqPDU, rq_item), assoc(pdu.AAssociateAcPDU, ac_item),
               assoc_user_info(pdu.AAssociateRqPDU), assoc_user_info(pdu.AAssociateAcPDU),
               command('status', 70000), command('message_id_being_responded_to', 65536), data_set):
        import warnings
        try:
            with warnings.catch_warnings():
                warnings.simplefilter('ignore')
                op()
        except Exception:       # noqa  (the operation may fail; what it leaves behind is the subject)
            pass


def quiet_warnings():
    """What every check does first - silence pydicom's chatter - without losing the ambient 'library warnings are
    errors' condition of this shard / case."""
    import warnings
    warnings.simplefilter('ignore')
    set_warnings(_AMBIENT['warnings'] or _AMBIENT['warnings_default'])


def ambient_case(case):
    """The replay case, marked when it was met under changed ambient conditions."""
    if isinstance(case, dict):
        if _AMBIENT['logging'] and '_ambient_logging' not in case:
            case = dict(case, _ambient_logging=True)
        if _AMBIENT['optimize'] and '_ambient_optimize' not in case:
            case = dict(case, _ambient_optimize=True)
        if _AMBIENT['warnings'] and '_ambient_warnings' not in case:
            case = dict(case, _ambient_warnings=True)
        if _AMBIENT['faults'] and '_ambient_faults' not in case:
            case = dict(case, _ambient_faults=True)
    return case


class Ctx(object):
    """Per-run accounting object handed to every check."""

    MAX_SAMPLES = 6

    def __init__(self, prop, tier, seed, level='exploration'):
        self.prop = prop
        self.tier = tier
        self.seed = seed
        self.level = level
        self.evaluations = 0
        self.nontrivial = set()
        self.hist = {}
        self.samples = []
        self._sample_classes = set()
        self.failures = {}      # key -> dict(what, case, count)
        self.known_hits = {}    # key -> what
        self.excluded = {}      # reason -> count (cases excluded by construction / known finding)
        self.assumptions = []
        self.rule = ''
        self.exhaustive = None
        self.extra = {}
        self.inconclusive = 0
        self.t0 = time.time()
        self.thorough = (tier == 'thorough')

    # -- case accounting -------------------------------------------------------------------
    def case(self, key=None, nontrivial=False, labels=(), sample=None):
        """Count one evaluated case.  `key` identifies the case (any JSON-able/bytes value)."""
        self.evaluations += 1
        for lab in labels:
            self.hist[lab] = self.hist.get(lab, 0) + 1
        if nontrivial:
            self.nontrivial.add(digest(key) if key is not None else str(self.evaluations))
            if sample is not None:
                cls = labels[0] if labels else ''
                if len(self.samples) < self.MAX_SAMPLES and \
                        (cls not in self._sample_classes or len(self.samples) < 2):
                    self._sample_classes.add(cls)
                    self.samples.append(brief(sample))

    def label(self, lab, n=1):
        self.hist[lab] = self.hist.get(lab, 0) + n

    def exclude(self, reason, n=1):
        self.excluded[reason] = self.excluded.get(reason, 0) + n

    def fail(self, key, what, case=None):
        """Record a violation without raising (for enumerations that collect all failures)."""
        ent = self.failures.get(key)
        if ent is None:
            self.failures[key] = {'what': what, 'case': ambient_case(case), 'count': 1}
        else:
            ent['count'] += 1

    def check(self, fn, *args, **kw):
        """Run fn; a Violation it raises is recorded (first per key), not propagated."""
        try:
            fn(*args, **kw)
            return True
        except Violation as v:
            self.fail(v.key, v.what, v.case)
            return False

    def elapsed(self):
        return time.time() - self.t0


# ------------------------------------------------------------------------------------------
# Hypothesis driver

def hyp_search(ctx, strategy, fn, max_examples, name='', max_buckets=6, shrink=True,
               stateful_steps=None, realtime=False):
    """Search `strategy` for a value on which fn(value) raises Violation.

    Hypothesis stops at the first failure, so the search is repeated with every bucket found so
    far ignored, until a pass finds nothing new (collect-then-shrink).  Each bucket's shrunk
    case is recorded with ctx.fail.
    """
    import hypothesis
    from hypothesis import given, settings, HealthCheck, Phase

    if os.environ.get('VERIF_LIGHT') == '1':
        max_examples = max(20, max_examples // 5)        # (second pass of the same check under `python -O`)
    ignored = set()
    for _round in range(max_buckets):
        last = {}
        # shrinking is a convenience for whoever reads the replay; on a badly broken tree it can take minutes per
        # bucket, so each check has a wall-clock allowance for it, after which failures are reported unshrunk
        left = getattr(ctx, 'shrink_seconds_left', None)
        if left is None:
            left = ctx.shrink_seconds_left = 600.0 if getattr(ctx, 'thorough', False) else 90.0
        phases = [Phase.explicit, Phase.reuse, Phase.generate, Phase.target]
        if shrink and left > 0:
            phases.append(Phase.shrink)
        t_start = time.time()

        @hypothesis.seed(ctx.seed)
        @settings(max_examples=max_examples, database=None, deadline=None,
                  report_multiple_bugs=False, derandomize=False, phases=phases,
                  suppress_health_check=[HealthCheck.too_slow, HealthCheck.data_too_large,
                                         HealthCheck.filter_too_much,
                                         HealthCheck.large_base_example],
                  print_blob=False)
        @given(strategy, hypothesis.strategies.integers(0, 7))
        def test(value, ambient):
            set_logging(ambient in (3, 7) or _AMBIENT['default'])
            set_warnings(ambient == 5 or _AMBIENT['warnings_default'])
            _AMBIENT['faults'] = ambient in (2, 6)
            if _AMBIENT['faults']:
                provoke_faults()        # (failed operations right before the case, same thread)
            try:
                fn(value)
            except Violation as v:
                if v.key in ignored:
                    return
                v.case = ambient_case(v.case)
                last['v'] = v
                raise
            finally:
                set_logging(_AMBIENT['default'])
                set_warnings(_AMBIENT['warnings_default'])
                _AMBIENT['faults'] = False

        try:
            test()
        except Violation:
            ctx.shrink_seconds_left = left - (time.time() - t_start)
            v = last['v']
            ctx.fail(v.key, v.what, v.case)
            ignored.add(v.key)
            continue
        except hypothesis.errors.Unsatisfiable as exc:
            raise HarnessError('generator unsatisfiable in %s: %r' % (name, exc))
        except hypothesis.errors.Flaky:
            # the same input gave different outcomes when Hypothesis re-executed it.  Every check is a pure function
            # of its input, so the state that differs lives in the library under test (a cache, a shared default):
            # the violation that was observed stands, with its input as the replay case
            v = last.get('v')
            if v is None:
                raise
            if realtime:
                # (checks over real sockets and real time: the difference may be the machine's, not the library's)
                ctx.inconclusive += 1
                ctx.label('inconclusive')
                ignored.add(v.key)
                continue
            ctx.fail(v.key, v.what + ' [outcome for this input changed between executions: the library keeps '
                     'state across calls]', v.case)
            ignored.add(v.key)
            continue
        break
    return ignored


# ------------------------------------------------------------------------------------------
# known findings / reporting

def load_known():
    path = os.path.join(VERIF_DIR, 'known_findings.json')
    if not os.path.exists(path):
        return []
    with open(path) as fh:
        return json.load(fh).get('findings', [])


def write_replay(prop, key, what, case):
    d = os.path.join(OUT_DIR, 'replays', prop)
    os.makedirs(d, exist_ok=True)
    body = {'property': prop, 'key': key, 'what': what, 'case': to_jsonable(case)}
    name = hashlib.sha1(canon(body).encode()).hexdigest()[:16] + '.json'
    path = os.path.join(d, name)
    with open(path, 'w') as fh:
        json.dump(body, fh, indent=1, sort_keys=True)
    return path


def optimize_pass(ctx):
    """The same check once more, lighter, in a child interpreter started with -O (asserts stripped, __debug__ False): no
    property depends on that flag.  The child's failures and counts are merged into ctx; a harness error of the child
    is a harness error."""
    import subprocess
    import tempfile
    if sys.flags.optimize or os.environ.get('VERIF_OPT_PASS', '1') == '0':
        return
    fd_, path = tempfile.mkstemp(prefix='vf_opt_', suffix='.json', dir=OUT_DIR if os.path.isdir(OUT_DIR) else None)
    os.close(fd_)
    env = dict(os.environ, VERIF_LIGHT='1', VERIF_OPT_PASS='0', VERIF_CHILD_JSON=path, VERIF_SEED=str(ctx.seed))
    try:
        res = subprocess.run([sys.executable, '-O', '-m', 'vf.run', ctx.prop, '--tier', 'quick'], cwd=VERIF_DIR, env=env,
                             capture_output=True, text=True)
        if res.returncode != 0 or os.path.getsize(path) == 0:
            raise HarnessError('pass under python -O failed (rc %d): %s' % (res.returncode, (res.stdout + res.stderr)[-600:]))
        with open(path) as fh:
            child = from_jsonable(json.load(fh))
    finally:
        try:
            os.unlink(path)
        except OSError:
            pass
    for key, ent in child['failures'].items():
        if key not in ctx.failures:
            ctx.failures[key] = {'what': ent['what'] + ' [under python -O]', 'case': ent['case'], 'count': ent['count']}
    ctx.evaluations += child['evaluations']
    ctx.inconclusive += child.get('inconclusive', 0)
    ctx.hist['ambient: second pass under python -O (evaluations)'] = child['evaluations']
    ctx.hist['ambient: second pass under python -O (distinct non-trivial)'] = child['nontrivial']


def finish(ctx, wall_extra=None):
    """Classify failures, print protocol lines, write evidence; return the exit code."""
    child_json = os.environ.get('VERIF_CHILD_JSON')
    if child_json:
        with open(child_json, 'w') as fh:
            json.dump(to_jsonable({'failures': ctx.failures, 'evaluations': ctx.evaluations,
                                   'nontrivial': len(ctx.nontrivial), 'inconclusive': ctx.inconclusive}), fh)
        return 0
    optimize_pass(ctx)
    known = [k for k in load_known() if k.get('property') == ctx.prop]
    open_keys = {k['key']: k for k in known if k.get('status') == 'open'}
    violations = []
    for key, ent in sorted(ctx.failures.items()):
        if key in open_keys:
            print('KNOWN-FINDING: property=%s %s [%s]' % (ctx.prop, open_keys[key]['what'], key))
            continue
        path = write_replay(ctx.prop, key, ent['what'], ent['case'])
        violations.append((key, ent, path))
    for key, ent, path in violations:
        print('VIOLATION property=%s replay=%s' % (ctx.prop, os.path.relpath(path, OUT_DIR)))
        print('  key=%s count=%d what=%s' % (key, ent['count'], ent['what']))
    cov = {
        'evaluations': ctx.evaluations,
        'distinct_nontrivial': len(ctx.nontrivial),
        'rule': ctx.rule,
        'samples': ctx.samples,
        'histogram': dict(sorted(ctx.hist.items())),
    }
    if ctx.exhaustive is not None:
        cov['exhaustive'] = bool(ctx.exhaustive)
    if ctx.excluded:
        cov['excluded_by_construction'] = ctx.excluded
    if ctx.inconclusive:
        cov['inconclusive'] = ctx.inconclusive
    cov.update(ctx.extra)
    ev = {
        'property_id': ctx.prop,
        'tier': ctx.tier,
        'seed': ctx.seed,
        'level': ctx.level,
        'coverage': cov,
        'assumptions': ctx.assumptions,
        'wall_s': round(ctx.elapsed(), 3),
        'violations': len(violations),
        'known_findings_hit': sorted(k for k in ctx.failures if k in open_keys),
    }
    os.makedirs(os.path.join(OUT_DIR, 'evidence'), exist_ok=True)
    with open(os.path.join(OUT_DIR, 'evidence', ctx.prop + '.json'), 'w') as fh:
        json.dump(to_jsonable(ev), fh, indent=1, sort_keys=True)
    print('%s %s seed=%d: %d evaluations, %d distinct non-trivial, %d violation bucket(s), '
          '%.1fs' % (ctx.prop, ctx.tier, ctx.seed, ctx.evaluations, len(ctx.nontrivial),
                     len(violations), ctx.elapsed()))
    return 1 if violations else 0


def harness_exit(exc):
    sys.stdout.flush()
    sys.stderr.write('HARNESS-ERROR: %r\n' % (exc,))
    traceback.print_exc()
    sys.stderr.flush()
    os._exit(2)          # (not sys.exit: a provider thread left running by a broken tree must not block the exit)


# ------------------------------------------------------------------------------------------
# process-level sharding

def _export(ctx):
    return {'evaluations': ctx.evaluations, 'nontrivial': ctx.nontrivial, 'hist': ctx.hist,
            'samples': ctx.samples, 'failures': ctx.failures, 'excluded': ctx.excluded,
            'inconclusive': ctx.inconclusive, 'extra': ctx.extra}


def _merge(ctx, exp):
    ctx.evaluations += exp['evaluations']
    ctx.nontrivial |= exp['nontrivial']
    for k, v in exp['hist'].items():
        ctx.hist[k] = ctx.hist.get(k, 0) + v
    for s in exp['samples']:
        if len(ctx.samples) < ctx.MAX_SAMPLES:
            ctx.samples.append(s)
    for k, ent in exp['failures'].items():
        if k in ctx.failures:
            ctx.failures[k]['count'] += ent['count']
        else:
            ctx.failures[k] = ent
    for k, v in exp['excluded'].items():
        ctx.excluded[k] = ctx.excluded.get(k, 0) + v
    ctx.inconclusive += exp['inconclusive']
    for k, v in exp['extra'].items():
        if isinstance(v, (int, float)) and isinstance(ctx.extra.get(k), (int, float)):
            ctx.extra[k] += v
        elif isinstance(v, (set, frozenset)) and isinstance(ctx.extra.get(k), (set, frozenset)):
            ctx.extra[k] = set(ctx.extra[k]) | set(v)
        else:
            ctx.extra.setdefault(k, v)


def _shard_entry(args):
    modname, funcname, prop, tier, seed, level, job = args
    import importlib
    sub = Ctx(prop, tier, seed, level)
    _AMBIENT['default'] = (seed % 4 == 3)         # every fourth shard as a whole
    set_logging(_AMBIENT['default'])
    _AMBIENT['warnings_default'] = (seed % 4 == 1)
    set_warnings(_AMBIENT['warnings_default'])
    try:
        func = getattr(importlib.import_module(modname), funcname)
        func(sub, job)
    except Violation as v:
        sub.fail(v.key, v.what, v.case)
    except HarnessError as exc:
        return {'harness_error': repr(exc)}
    except Exception as exc:
        return {'harness_error': repr(exc) + '\n' + traceback.format_exc()}
    return _export(sub)


def parallel(ctx, func, jobs, procs=None):
    """Run func(sub_ctx, job) for every job in worker processes (fork) and merge the results.

    Each job gets its own seed: ctx.seed * 1000 + index.
    """
    import multiprocessing as mp
    if not jobs:
        return
    procs = procs or min(len(jobs), int(os.environ.get('VERIF_PROCS', '16')))
    args = [(func.__module__, func.__name__, ctx.prop, ctx.tier, ctx.seed * 1000 + i, ctx.level, job)
            for i, job in enumerate(jobs)]
    if procs <= 1:
        results = [_shard_entry(a) for a in args]
    else:
        mpctx = mp.get_context('fork')
        with mpctx.Pool(procs, maxtasksperchild=None) as pool:
            results = pool.map(_shard_entry, args, chunksize=1)
    for res in results:
        if 'harness_error' in res:
            raise HarnessError('worker failed: ' + res['harness_error'])
        _merge(ctx, res)


def harness_fault(exc):
    """Is this exception a defect of the MACHINERY rather than behaviour of the library?  True for attribute / type /
    name errors raised by a statement in the harness's own code (vf/...) - e.g. a private attribute of the library that
    the simulation reads and that a refactoring renamed.  Such a tree cannot be judged: exit 2, not a violation."""
    if not isinstance(exc, (AttributeError, NameError, TypeError, ImportError)):
        return False
    tb = exc.__traceback__
    last = None
    while tb is not None:
        last = tb.tb_frame.f_code.co_filename
        tb = tb.tb_next
    return last is not None and (os.sep + 'vf' + os.sep) in last and os.path.abspath(last).startswith(VERIF_DIR)


def lib_frame(exc):
    """(exception type, innermost pynetdicom2 frame) - bucket key for unexpected exceptions."""
    tb = exc.__traceback__
    where = '?'
    while tb is not None:
        fn = tb.tb_frame.f_code.co_filename
        if os.sep + 'pynetdicom2' + os.sep in fn:
            where = '%s.%s' % (os.path.basename(fn)[:-3], tb.tb_frame.f_code.co_name)
        tb = tb.tb_next
    return '%s@%s' % (type(exc).__name__, where)
