"""Shared harness for service-class checks (C14, C16, C17, C19) on top of vf/fakedul.py."""
from __future__ import annotations

import io

from . import fakedul as fd
from . import refcmd

IMPLICIT = '1.2.840.10008.1.2'
EXPLICIT = '1.2.840.10008.1.2.1'
BIG = '1.2.840.10008.1.2.2'
VERIFICATION = '1.2.840.10008.1.1'
PATIENT_FIND = '1.2.840.10008.5.1.4.1.2.1.1'
STUDY_FIND = '1.2.840.10008.5.1.4.1.2.2.1'
PATIENT_MOVE = '1.2.840.10008.5.1.4.1.2.1.2'
PATIENT_GET = '1.2.840.10008.5.1.4.1.2.1.3'
MWL_FIND = '1.2.840.10008.5.1.4.31'
COMMITMENT = '1.2.840.10008.1.20.1'
COMMITMENT_INSTANCE = '1.2.840.10008.1.20.1.1'
SC_STORAGE = '1.2.840.10008.5.1.4.1.1.7'
CT_STORAGE = '1.2.840.10008.5.1.4.1.1.2'


def enc_ds(ds, ts=IMPLICIT):
    """Encode a pydicom Dataset independently of the library's dsutils."""
    import pydicom
    fp = pydicom.filebase.DicomBytesIO()
    fp.is_implicit_VR = ts == IMPLICIT
    fp.is_little_endian = ts != BIG
    pydicom.filewriter.write_dataset(fp, ds)
    return fp.parent.getvalue()


def dec_ds(raw, ts=IMPLICIT):
    import pydicom
    return pydicom.filereader.read_dataset(io.BytesIO(raw), ts == IMPLICIT, ts != BIG)


def ds_equal(a, b):
    """Element-wise equality of two data sets via a canonical re-encoding.  `a` is the observed value:
    if it cannot even be re-encoded (garbage produced by the code under test) it is simply not equal."""
    want = enc_ds(b, EXPLICIT)
    try:
        got = enc_ds(a, EXPLICIT)
    except Exception:
        return False
    return got == want


def wire_ds_equal(raw, ts, want):
    """True iff the bytes `raw` (observed on the wire, transfer syntax ts) decode to the data set `want`."""
    try:
        got = dec_ds(raw or b'', ts)
    except Exception:
        return False
    return ds_equal(got, want)


def simple_ds(**kw):
    from pydicom.dataset import Dataset
    ds = Dataset()
    for k, v in kw.items():
        setattr(ds, k, v)
    return ds


def make_server(handlers, services, ts=None, max_pdu=16384, cls=None, title='SRV'):
    """AE subclass whose event handlers are taken from the dict `handlers` (name -> callable)."""
    from pynetdicom2 import applicationentity
    base = cls or applicationentity.AE

    class Server(base):
        pass
    for name, fn in handlers.items():
        setattr(Server, name, (lambda f: lambda self, *a, **k: f(*a, **k))(fn))
    ae = fd.make_ae(title, ts, max_pdu, cls=Server)
    for s in services:
        ae.add_scp(s)
    return ae


def primary_plan(contexts, messages, ts=IMPLICIT, max_len=16384, calling='CLI', release=False):
    """Plan for the acceptor's provider: propose `contexts` [(id, abstract)], then deliver `messages`
    [(fields, data, pc_id)] (or callables producing such tuples lazily)."""
    def plan(dul):
        dul.push_pdu(fd.rq_spec([(cid, a, [ts]) for cid, a in contexts], max_len, 'SRV', calling))
        for m in messages:
            if m == 'release':
                dul.push_pdu({'t': 5, 'r1': 0, 'r2': 0})
            elif isinstance(m, dict) and 'pdu' in m:
                dul.push_pdu(m['pdu'])
            else:
                fields, data, pc_id = m
                dul.push_msg(fields, data, pc_id)
        if release:
            dul.push_pdu({'t': 5, 'r1': 0, 'r2': 0})
    return plan


def sub_plan(store_statuses=None, report_status=0, accept=True, ts_choice=0, log=None, reject=None,
             respond=True, confirm_release=True, max_len=16384):
    """Plan for a sub-association opened by the library (C-MOVE destination, commitment report):
    auto-accept every proposed context, answer C-STORE-RQ with the scripted statuses (cycled),
    answer N-EVENT-REPORT-RQ, answer A-RELEASE-RQ."""
    statuses = list(store_statuses or [0])
    state = {'stores': 0}

    def responder(dul, rec):
        if rec['kind'] == 'pdu':
            t = rec['spec'].get('t')
            if t == 1:
                if reject is not None:
                    return [fd.incoming_pdu({'t': 3, 'r1': 0, 'r2': 0, 'result': reject[0], 'source': reject[1],
                                             'reason': reject[2]})]
                pcs = [it for it in rec['spec']['items'] if it['t'] == 0x20]
                ans = [(it['id'], 0, it['ts'][ts_choice % len(it['ts'])]['name']) for it in pcs]
                return [fd.incoming_pdu(fd.ac_spec(ans, max_len, rec['spec']['called'], rec['spec']['calling']))]
            if t == 5:
                # (a peer that never confirms the release makes the releasing side run into its time-out)
                return [fd.incoming_pdu({'t': 6, 'r1': 0, 'r2': 0})] if confirm_release else []
            return []
        cf = rec['fields'].get(0x0100)
        pc_id = rec['pc_ids'][0] if rec['pc_ids'] else 1
        if not respond:
            return []
        if cf == 0x0001:
            st_ = statuses[state['stores'] % len(statuses)]
            state['stores'] += 1
            f = {0x0002: rec['fields'].get(0x0002), 0x0100: 0x8001, 0x0120: rec['fields'].get(0x0110),
                 0x0900: st_, 0x1000: rec['fields'].get(0x1000)}
            return [lambda: fd.incoming_msg(dul, f, None, pc_id)]
        if cf == 0x0100:
            f = {0x0002: rec['fields'].get(0x0002), 0x0100: 0x8100, 0x0120: rec['fields'].get(0x0110),
                 0x0900: report_status, 0x1000: rec['fields'].get(0x1000), 0x1002: rec['fields'].get(0x1002)}
            return [lambda: fd.incoming_msg(dul, f, None, pc_id)]
        return []

    def plan(dul):
        dul.responder = responder
    return plan


def check_response(prop, req_fields, rsp, pc_id, status_ok, case, what=''):
    """Correlation oracle (PS3.7 9.3 / 10.3): rsp is a fakedul 'msg' record."""
    from .common import Violation
    req_cf = req_fields[0x0100]
    name = refcmd.MESSAGES[req_cf][0]
    f = rsp['fields']
    if rsp['defects'] and rsp['defects'][0].startswith('unparseable'):
        raise Violation('%s:%s:unparseable' % (prop, name), '%s%s: response command set: %s' % (what, name, rsp['defects'][0]), case)
    if rsp['pc_ids'] != [pc_id]:
        raise Violation('%s:%s:context' % (prop, name), '%sresponse to %s sent on context(s) %r, request arrived on %d'
                        % (what, name, rsp['pc_ids'], pc_id), case)
    if f.get(0x0100) != (req_cf | 0x8000):
        raise Violation('%s:%s:type' % (prop, name), '%sresponse to %s has command field %r'
                        % (what, name, f.get(0x0100)), case)
    if f.get(0x0120) != req_fields.get(0x0110):
        raise Violation('%s:%s:message-id' % (prop, name), '%sresponse to %s: Message ID Being Responded To %r, request had %r'
                        % (what, name, f.get(0x0120), req_fields.get(0x0110)), case)
    req_cls = req_fields.get(refcmd.MESSAGES[req_cf][2])
    if f.get(0x0002) != req_cls:
        raise Violation('%s:%s:sop-class' % (prop, name), '%sresponse to %s: Affected SOP Class UID %r, request had %r'
                        % (what, name, f.get(0x0002), req_cls), case)
    inst_el = refcmd.MESSAGES[req_cf][3]
    rsp_inst_el = refcmd.MESSAGES[req_cf | 0x8000][3]
    if inst_el is not None and rsp_inst_el is not None and req_fields.get(inst_el) is not None:
        if f.get(rsp_inst_el) != req_fields.get(inst_el):
            raise Violation('%s:%s:sop-instance' % (prop, name), '%sresponse to %s: SOP Instance UID %r, request had %r'
                            % (what, name, f.get(rsp_inst_el), req_fields.get(inst_el)), case)
    st = f.get(0x0900)
    if not status_ok(st):
        raise Violation('%s:%s:status' % (prop, name), '%sresponse to %s carries status %s'
                        % (what, name, ('%04XH' % st) if isinstance(st, int) else repr(st)), case)
