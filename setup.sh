#!/bin/sh
# Offline setup: make sure hypothesis is importable in /venv and atheris under /verif/.deps.
cd "$(dirname "$0")" || exit 1
export PIP_NO_INDEX=1 PIP_DISABLE_PIP_VERSION_CHECK=1
W=/opt/veriftools/wheels
/venv/bin/python -c "import hypothesis" 2>/dev/null || \
  /venv/bin/pip install -q --no-index --find-links "$W" hypothesis || exit 1
mkdir -p .deps
PYTHONPATH=.deps /venv/bin/python -c "import atheris" 2>/dev/null || \
  /venv/bin/pip install -q --no-index --find-links "$W" --target .deps atheris || \
  echo "warning: atheris not installable; C12 falls back to Hypothesis-only fuzzing"
/venv/bin/python -c "import hypothesis, pydicom, six; print('setup ok: hypothesis', hypothesis.__version__)"
