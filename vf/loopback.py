"""Engine E: real loopback TCP, real threads (C15, C20).

Servers listen on an ephemeral port (port 0); every case uses its own temporary directory; a case
that exceeds its wall-clock limit or ends in a library time-out is *inconclusive*, never a violation.
"""
from __future__ import annotations

import contextlib
import io
import os
import shutil
import sys
import tempfile
import threading
import time


class Inconclusive(Exception):
    pass


class Recorder(object):
    """Thread-safe append-only log shared by handler threads."""

    def __init__(self):
        self.lock = threading.Lock()
        self.items = []

    def add(self, item):
        with self.lock:
            self.items.append(item)

    def snapshot(self):
        with self.lock:
            return list(self.items)


@contextlib.contextmanager
def quiet_stderr():
    """socketserver prints handler tracebacks to stderr; keep them out of the check's output but
    available for diagnosis."""
    saved = sys.stderr
    buf = io.StringIO()
    sys.stderr = buf
    try:
        yield buf
    finally:
        sys.stderr = saved


@contextlib.contextmanager
def serving(ae):
    """Run an already constructed (bound) AE; yields its port."""
    port = ae.server_address[1]
    th = threading.Thread(target=ae.serve_forever, kwargs={'poll_interval': 0.05}, daemon=True)
    th.start()
    try:
        yield port
    finally:
        try:
            ae.shutdown()
        finally:
            ae.server_close()
        th.join(5)


def make_server(cls, *args, **kw):
    """Construct an AE subclass bound to an ephemeral port."""
    kw.setdefault('port', 0)
    return cls(*args, **kw)


@contextlib.contextmanager
def tempdir(prefix='vf_lb_'):
    d = tempfile.mkdtemp(prefix=prefix)
    try:
        yield d
    finally:
        shutil.rmtree(d, ignore_errors=True)


def run_with_limit(fn, limit):
    """Run fn() in a thread; raises Inconclusive if it does not finish within `limit` seconds."""
    box = {}

    def target():
        try:
            box['value'] = fn()
        except BaseException as exc:   # noqa
            box['exc'] = exc
    th = threading.Thread(target=target, daemon=True)
    t0 = time.time()
    th.start()
    th.join(limit)
    if th.is_alive():
        raise Inconclusive('case exceeded its wall-clock limit of %.0f s' % limit)
    if 'exc' in box:
        raise box['exc']
    return box.get('value')


def reproduced(fn, *args, **kw):
    """Run a case that uses real sockets, threads and time.  A Violation counts only if the very same case raises the
    very same violation (key) three times in a row - what the library does with a given case is deterministic, what a
    loaded machine does to time-outs is not.  Otherwise: Inconclusive."""
    from .common import Violation
    first = None
    for attempt in range(3):
        try:
            return fn(*args, **kw)
        except Violation as v:
            if first is None:
                first = v
            elif v.key != first.key:
                raise Inconclusive('violation did not reproduce (%s, then %s)' % (first.key, v.key))
        except Inconclusive:
            if first is None:
                raise
            raise Inconclusive('violation did not reproduce (%s, then a time-out)' % first.key)
        else:
            break
    if first is not None and attempt == 2:
        raise first
    raise Inconclusive('violation did not reproduce (%s)' % (first.key if first else '?'))


def wait_until(pred, limit=5.0, step=0.02):
    t0 = time.time()
    while time.time() - t0 < limit:
        if pred():
            return True
        time.sleep(step)
    return pred()
