"""Run EVERY check against the behaviour-preserving refactorings under /verif/benign/<name>/.

    python -m vf.tools.benign [name ...] [--tier quick|thorough] [--jobs N] [--record]

The opposite of vf.tools.seeded: each directory holds a patch (written by somebody who saw only a property's text)
that restructures the code the property is anchored in WITHOUT changing anything observable - private names,
control flow, internal data structures, equivalent standard-library facilities.  The properties still hold on such a
tree, so every check must stay quiet on it:

    quiet          exit 0                                  - as it should be
    HARNESS-ERROR  exit 2 (the machinery does not fit the tree, e.g. a private attribute it reads was renamed):
                   tolerable - nothing is claimed - but each one is a dependency on an internal worth removing
    FALSE-ALARM    exit 1 / a VIOLATION line              - a defect of the check, to be corrected

The patch is applied to a scratch copy of /repo's working tree, never to /repo; the repository's own tests are run on
the copy first (a refactoring that breaks them is not benign).
"""
import json
import os
import shutil
import subprocess
import sys
import time

from .seeded import scratch_copy, run_check, VERIF, ALL


def evaluate(args):
    name, tier, record = args
    d = os.path.join(VERIF, 'benign', name)
    meta = json.load(open(os.path.join(d, 'meta.json')))
    out = []
    try:
        tree = scratch_copy(os.path.join(d, 'patch.diff'))
    except RuntimeError as exc:
        return name, ['%-10s PATCH-ERROR %s' % (name, str(exc)[:200])], [], []
    alarms, errors = [], []
    try:
        tests = subprocess.run(['/venv/bin/python', '-m', 'pytest', '-q', '-p', 'no:cacheprovider', 'tests/test_pdu.py',
                                'tests/test_dimsemessages.py'], cwd=tree, capture_output=True, text=True)
        line = (tests.stdout.strip().splitlines() or ['?'])[-1]
        out.append('%-10s %s  tests: %s' % (name, meta.get('property'), line))
        verdicts = []
        for prop in ALL:
            rc, secs, keys = run_check(prop, tree, tier)
            verdict = {0: 'quiet', 1: 'FALSE-ALARM', 2: 'HARNESS-ERROR'}.get(rc, 'rc=%d' % rc)
            verdicts.append({'check': prop, 'tier': tier, 'verdict': verdict, 'seconds': int(secs), 'first_key': keys[0] if keys else ''})
            if rc == 1:
                alarms.append(prop)
            elif rc != 0:
                errors.append(prop)
            if rc != 0:
                out.append('    %s %-5s %-13s (%ds) %s' % (prop, tier, verdict, secs, keys[0] if keys else ''))
        out.append('    quiet: %d of %d checks' % (len(ALL) - len(alarms) - len(errors), len(ALL)))
        if record:
            meta['verified'] = {'applied_to': 'scratch copy of /repo (never /repo itself)', 'stable_tests': line,
                                'checks': verdicts}
            with open(os.path.join(d, 'meta.json'), 'w') as fh:
                json.dump(meta, fh, indent=1)
                fh.write('\n')
    finally:
        shutil.rmtree(tree, ignore_errors=True)
    return name, out, alarms, errors


def main(argv):
    tier, jobs, record, names = 'quick', 1, False, []
    it = iter(argv)
    for a in it:
        if a == '--tier':
            tier = next(it)
        elif a == '--jobs':
            jobs = int(next(it))
        elif a == '--record':
            record = True
        else:
            names.append(a)
    base = os.path.join(VERIF, 'benign')
    if not names:
        names = sorted(n for n in os.listdir(base) if os.path.exists(os.path.join(base, n, 'patch.diff')))
    work = [(n, tier, record) for n in names]
    if jobs > 1:
        import multiprocessing as mp
        with mp.get_context('fork').Pool(jobs) as pool:
            results = pool.map(evaluate, work, chunksize=1)
    else:
        results = [evaluate(w) for w in work]
    bad = []
    for name, out, alarms, errors in results:
        print('\n'.join(out))
        sys.stdout.flush()
        if alarms:
            bad.append('%s: %s' % (name, ','.join(alarms)))
    print('%d refactorings evaluated; false alarms: %s' % (len(results), '; '.join(bad) or 'none'))
    return 1 if bad else 0


if __name__ == '__main__':
    sys.exit(main(sys.argv[1:]))
