"""C03 - PDU framing is independent of how TCP segments the byte stream (metamorphic, simnet)."""
from __future__ import annotations

import itertools
import warnings

from hypothesis import strategies as st

from .. import convs, refpdu, simnet
from ..common import Violation, HarnessError, hyp_search, parallel, lib_frame, quiet_warnings

LEVEL = 'exploration'


def build_script(steps, cuts, first_eager, b2b):
    """cuts: {burst index: sorted cut offsets inside that burst's byte string} or None = reference
    delivery (one PDU per segment, each after quiescence)."""
    actions = []
    bi = 0
    first_burst_first = True
    for st_ in steps:
        if st_[0] == 'burst':
            if cuts is None:
                segs = list(st_[1])
                eager = [False] * len(segs)
            else:
                stream = b''.join(st_[1])
                offs = [0] + [c for c in cuts.get(bi, []) if 0 < c < len(stream)] + [len(stream)]
                segs = [stream[a:b] for a, b in zip(offs, offs[1:])]
                eager = [b2b] * len(segs)
                eager[0] = first_eager and first_burst_first and not actions
            for s, e in zip(segs, eager):
                actions.append({'k': 'seg', 'data': s, 'eager': bool(e)})
            bi += 1
            first_burst_first = False
        elif st_[0] == 'user':
            actions.append({'k': 'user', 'prim': convs.user_prim(st_[1])})
        elif st_[0] == 'close':
            # the peer's close is part of the byte stream's timing: in back-to-back mode it is already pending
            # when the provider looks at the socket again
            prev_net = bool(actions) and actions[-1]['k'] == 'seg'
            actions.append({'k': 'close', 'eager': bool(cuts is not None and b2b and prev_net)})
    return actions


def observe(role, steps, cuts, first_eager=False, b2b=False, budget=20000, max_pdu=65536, timeout_mode=False):
    # timeout_mode: the application called socket.setdefaulttimeout(30) - the transport socket is in time-out mode,
    # in which the kernel may take only part of what send() is given (here: 7 bytes at a time) and MSG_WAITALL does
    # not wait
    kw = dict(sock_timeout=30.0, sndbuf=7) if timeout_mode else {}
    sim = simnet.run_scenario(role, build_script(steps, cuts, first_eager, b2b), budget=budget, max_pdu=max_pdu, **kw)
    out = sim.outcome
    return {
        'outcome': out[0] if out[0] != 'exception' else 'exception:' + lib_frame(out[1]),
        'detail': '' if out[0] == 'returned' else repr(out[1]),
        'inds': [convs.describe_ind(i) for i in sim.indications()],
        'wire': sim.wire(),
        'final': {k: v for k, v in sim.final().items() if k in ('state', 'closed', 'sock_none')},
        'dropped': sim.dropped,
    }


def compare(name, base, got, case):
    from ..pdugen import first_diff
    if got['outcome'] != base['outcome']:
        raise Violation('C03:outcome:%s' % got['outcome'],
                        '%s: provider loop ended with %s %s (reference delivery: %s)'
                        % (name, got['outcome'], got['detail'], base['outcome']), case)
    d = first_diff(base['inds'], got['inds'])
    if d:
        raise Violation('C03:indications',
                        '%s: indications differ from one-PDU-per-segment delivery at %s (%d vs %d indications)'
                        % (name, d, len(got['inds']), len(base['inds'])), case)
    if got['wire'] != base['wire']:
        raise Violation('C03:wire', '%s: bytes sent differ from the reference delivery (%d vs %d bytes)'
                        % (name, len(got['wire']), len(base['wire'])), case)
    if got['final'] != base['final']:
        raise Violation('C03:final-state', '%s: final %r, reference %r' % (name, got['final'], base['final']), case)


def burst_info(steps):
    """[(burst index, stream length, PDU boundary offsets)]"""
    out = []
    bi = 0
    for s in steps:
        if s[0] == 'burst':
            bounds, p = set(), 0
            for pdu_bytes in s[1]:
                p += len(pdu_bytes)
                bounds.add(p)
            out.append((bi, p, bounds))
            bi += 1
    return out


def nontrivial(steps, cuts):
    for bi, n, bounds in burst_info(steps):
        cs = [c for c in cuts.get(bi, []) if 0 < c < n]
        if any(c not in bounds for c in cs):
            return True
        # >= 2 PDUs share a segment
        offs = [0] + cs + [n]
        for a, b in zip(offs, offs[1:]):
            if len([x for x in bounds if a < x <= b]) >= 2:
                return True
    return False


def run_variant(ctx, name, role, steps, base, cuts, first_eager, b2b, label, timeout_mode=False):
    case = {'conv': name, 'cuts': {str(k): v for k, v in cuts.items()}, 'first_eager': first_eager, 'b2b': b2b,
            'timeout_mode': timeout_mode}
    ctx.case((name, sorted(cuts.items()), first_eager, b2b, timeout_mode), nontrivial(steps, cuts),
             labels=[label, 'conv=' + name, 'first_eager=%s' % first_eager, 'b2b=%s' % b2b] +
             (['socket-in-timeout-mode'] if timeout_mode else []),
             sample=case)
    got = observe(role, steps, cuts, first_eager, b2b, timeout_mode=timeout_mode)
    try:
        compare(name, base, got, case)
    except Violation as v:
        ctx.fail(v.key, v.what, v.case)


MODES = [(False, False), (True, True), (True, False), (False, True)]


def run_read_sizes(ctx, name, role, steps, base):
    """The provider reads with its own maximum PDU length as the buffer size.  Make a read return EXACTLY that
    many bytes with nothing further pending (the peer waits for an answer): read size = the length of a PDU
    (or half / a third of it), one PDU per segment, each after quiescence."""
    lengths = sorted({len(p) for s_ in steps if s_[0] == 'burst' for p in s_[1]})
    sizes = set()
    for n in lengths:
        sizes.update(x for x in (n, n // 2 if n % 2 == 0 else 0, n // 3 if n % 3 == 0 else 0) if x >= 6)
    for size in sorted(sizes):
        case = {'conv': name, 'read_size': size}
        ctx.case((name, 'read-size', size), True, labels=['exact-read-size', 'conv=' + name], sample=case)
        got = observe(role, steps, None, max_pdu=size)
        try:
            compare(name + ' (read size %d)' % size, base, got, case)
        except Violation as v:
            ctx.fail(v.key, v.what, v.case)


def observe_actions(role, actions, budget=20000):
    sim = simnet.run_scenario(role, actions, budget=budget)
    out = sim.outcome
    return {
        'outcome': out[0] if out[0] != 'exception' else 'exception:' + lib_frame(out[1]),
        'detail': '' if out[0] == 'returned' else repr(out[1]),
        'inds': [convs.describe_ind(i) for i in sim.indications()],
        'wire': sim.wire(),
        'final': {k: v for k, v in sim.final().items() if k in ('state', 'closed', 'sock_none')},
        'dropped': sim.dropped,
    }


def run_two_associations(ctx, name, role, steps, base, others):
    """Framing state belongs to ONE association.  While this provider holds the first half of a PDU, another
    provider of the same process carries a whole conversation of its own (itself delivered in odd segments);
    then the second half arrives.  Both must see exactly what they see when run alone."""
    info = burst_info(steps)
    for bi, n, bounds in info:
        starts = [0] + sorted(bounds)[:-1]
        for pi, (a, b) in enumerate(zip(starts, sorted(bounds))):
            if b - a < 2:
                continue
            cut = a + (b - a) // 2
            oname = others[(bi + pi) % len(others)]
            if name == 'acc-fragmented-command':
                oname = name        # the other association is receiving a fragmented command set at the same time
            orole, osteps = convs.corpus()[oname]
            obase = observe(orole, osteps, None)
            ocuts = {obi: [c for c in (3, on // 2, on - 1) if 0 < c < on] for obi, on, _ in burst_info(osteps)}
            case = {'conv': name, 'two_associations': True, 'burst': bi, 'cut': cut, 'other': oname}
            inner = {}

            def serve_other(sim, orole=orole, osteps=osteps, ocuts=ocuts, inner=inner):
                inner['got'] = observe(orole, osteps, ocuts, False, False)
            actions = []
            for act in build_script(steps, {bi: [cut]}, False, False):
                actions.append(act)
            # the 'call' goes between the two halves: locate the first segment of burst bi
            k = [i for i, act in enumerate(actions) if act['k'] == 'seg']
            seg_index = sum(1 for x in info if x[0] < bi)      # bursts before bi are delivered whole (1 segment each)
            pos = k[seg_index] + 1
            actions.insert(pos, {'k': 'call', 'fn': serve_other})
            ctx.case((name, 'two-assoc', bi, cut), True, labels=['two-associations', 'conv=' + name], sample=case)
            got = observe_actions(role, actions)
            try:
                whole = observe(role, steps, {bi: [cut]}, False, False)
                compare(name + ' (another association served between the halves of a PDU)', whole, got, case)
                if 'got' not in inner:
                    continue        # the scenario ended before that point (a defect other parts report)
                compare(oname + ' (served while %s held half a PDU)' % name, obase, inner['got'], case)
            except Violation as v:
                ctx.fail(v.key.replace('C03:', 'C03:two-associations:', 1), v.what, v.case)


def run_early_prefix(ctx, name, role, steps, base):
    """The first h bytes of the PDU that FOLLOWS a local user action arrive BEFORE that action (the peer had already
    started sending).  An incomplete PDU is nothing the provider can act on, so indications, bytes sent and final
    state must be what they are when the whole PDU arrives after the action."""
    seen_burst = False
    for k, st_ in enumerate(steps):
        if st_[0] == 'burst':
            seen_burst = True
        if st_[0] != 'user' or k + 1 >= len(steps) or steps[k + 1][0] != 'burst':
            continue
        if role == 'requestor' and not seen_burst:
            continue            # no transport connection yet
        first = steps[k + 1][1][0]
        for h in sorted({1, 5, 6, 7, len(first) // 2, len(first) - 1} & set(range(1, len(first)))):
            case = {'conv': name, 'early_prefix': h, 'before_step': k}
            actions = []
            for j, s2 in enumerate(steps):
                if j == k:
                    actions.append({'k': 'seg', 'data': first[:h], 'eager': False})
                if s2[0] == 'burst':
                    pdus = list(s2[1])
                    if j == k + 1:
                        pdus[0] = first[h:]
                    actions += [{'k': 'seg', 'data': p, 'eager': False} for p in pdus]
                elif s2[0] == 'user':
                    actions.append({'k': 'user', 'prim': convs.user_prim(s2[1])})
                else:
                    actions.append({'k': 'close', 'eager': False})
            ctx.case((name, 'early-prefix', k, h), True, labels=['prefix-before-user-action', 'conv=' + name], sample=case)
            got = observe_actions(role, actions)
            try:
                compare(name + ' (%d bytes of the next PDU arrive before local step %d)' % (h, k), base, got, case)
            except Violation as v:
                ctx.fail(v.key.replace('C03:', 'C03:early-prefix:', 1), v.what, v.case)


def run_race(ctx, name, role, steps):
    """A peer PDU arrives WHILE the local user's multi-fragment message is going out (its bytes are there at the
    provider's next look at the socket).  Where the transport happened to cut that PDU must not matter: every
    single cut is compared with the uncut arrival, both racing the send."""
    for k, st_ in enumerate(steps):
        if st_[0] != 'user' or 'msg' not in st_[1] or len(st_[1]['msg']) < 3:
            continue
        if k + 1 >= len(steps) or steps[k + 1][0] != 'burst':
            continue
        stream = b''.join(steps[k + 1][1])

        def script(cut, head_first=False):
            actions = []
            for j, s2 in enumerate(steps):
                if j == k and head_first:
                    # the head of the PDU was already there before the local user started sending
                    actions.append({'k': 'seg', 'data': stream[:cut], 'eager': False})
                if s2[0] == 'burst':
                    if j == k + 1:
                        parts = [stream] if cut is None else [stream[cut:]] if head_first else [stream[:cut], stream[cut:]]
                        actions += [{'k': 'seg', 'data': p_, 'eager': True} for p_ in parts]
                    else:
                        actions += [{'k': 'seg', 'data': p_, 'eager': False} for p_ in s2[1]]
                elif s2[0] == 'user':
                    actions.append({'k': 'user', 'prim': convs.user_prim(s2[1])})
                else:
                    actions.append({'k': 'close', 'eager': False})
            return actions
        whole = observe_actions(role, script(None))
        for cut, head_first in [(c_, h_) for c_ in range(1, len(stream)) for h_ in (False, True)]:
            case = {'conv': name, 'race_cut': cut, 'after_step': k, 'head_first': head_first}
            ctx.case((name, 'race', k, cut, head_first), True, labels=['cut-while-sending', 'conv=' + name], sample=case)
            got = observe_actions(role, script(cut, head_first))
            try:
                # what is indicated and how it ends must be identical; how many fragments had gone out before the
                # peer's PDU was complete may differ by scheduling - but a PDU that is complete at the first look is
                # recognised no later than one that is completed one read later, and at most one fragment goes out
                # per additional read
                label = name + ' (peer PDU cut at %d arriving while a %d-fragment message goes out)' % (cut, len(st_[1]['msg']))
                compare(label, dict(whole, wire=b''), dict(got, wire=b''), case)
                n_whole = len([p_ for p_ in refpdu.parse_stream(whole['wire']) if p_['t'] == 4])
                n_cut = len([p_ for p_ in refpdu.parse_stream(got['wire']) if p_['t'] == 4])
                if not n_whole <= n_cut <= n_whole + 1:
                    raise Violation('C03:race:fragments-sent', '%s: %d fragments went out when the PDU arrived whole, %d when it '
                                    'arrived in two pieces' % (label, n_whole, n_cut), case)
                rest_w = [p_['t'] for p_ in refpdu.parse_stream(whole['wire']) if p_['t'] != 4]
                rest_c = [p_['t'] for p_ in refpdu.parse_stream(got['wire']) if p_['t'] != 4]
                if rest_w != rest_c:
                    raise Violation('C03:race:wire', '%s: other PDUs written %r vs %r' % (label, rest_c, rest_w), case)
            except refpdu.RefError as exc:
                ctx.fail('C03:race:wire-malformed', '%s: %s' % (name, exc), case)
            except Violation as v:
                ctx.fail(v.key.replace('C03:', 'C03:race:', 1) if not v.key.startswith('C03:race') else v.key, v.what, v.case)


def run_conv(ctx, job):
    quiet_warnings()
    name = job['conv']
    role, steps = convs.corpus()[name]
    base = observe(role, steps, None)
    if base['outcome'] != 'returned' or not (base['inds'] or base['wire']):
        ctx.fail('C03:baseline:%s' % base['outcome'],
                 '%s: reference delivery itself ended with %s %s' % (name, base['outcome'], base['detail']),
                 {'conv': name, 'cuts': None, 'first_eager': False, 'b2b': False})
    info = burst_info(steps)
    run_read_sizes(ctx, name, role, steps, base)
    run_two_associations(ctx, name, role, steps, base, sorted(convs.corpus()))
    run_early_prefix(ctx, name, role, steps, base)
    run_race(ctx, name, role, steps)
    # whole bursts at once / one-byte dribble
    for fe, b2b in MODES:
        run_variant(ctx, name, role, steps, base, {}, fe, b2b, 'burst-at-once')
        run_variant(ctx, name, role, steps, base, {}, fe, b2b, 'burst-at-once', timeout_mode=True)
        run_variant(ctx, name, role, steps, base, {bi: list(range(1, n)) for bi, n, _ in info}, fe, b2b, 'dribble')
    # every single cut offset
    k = 0
    for bi, n, _ in info:
        for c in range(1, n):
            modes = MODES if job['all_modes'] else [MODES[k % 4], MODES[(k + 1) % 4]]
            k += 1
            for fe, b2b in modes:
                run_variant(ctx, name, role, steps, base, {bi: [c]}, fe, b2b, 'single-cut')
            if k % 3 == 0:
                # the same cut with the transport socket in time-out mode
                run_variant(ctx, name, role, steps, base, {bi: [c]}, modes[0][0], modes[0][1], 'single-cut', timeout_mode=True)
    # every pair of cut offsets (same burst, and across two bursts)
    if job['pairs']:
        k = 0
        flat = [(bi, c) for bi, n, _ in info for c in range(1, n)]
        stride = job['pair_stride']
        for i in range(0, len(flat)):
            for j in range(i + 1, len(flat)):
                k += 1
                if stride > 1 and k % stride:
                    continue
                (b1, c1), (b2, c2) = flat[i], flat[j]
                cuts = {b1: [c1]}
                cuts.setdefault(b2, []).append(c2)
                fe, b2b = MODES[k % 4]
                run_variant(ctx, name, role, steps, base, cuts, fe, b2b, 'pair-cut')


def run_long(ctx, n_msgs):
    """A long pipelined stream (> 64 KiB of PDUs without the peer ever pausing): cumulative buffer handling."""
    from .. import refpdu
    flood = [refpdu.enc_pdu(convs.echo_rq(i & 0xFFFF)) for i in range(1, n_msgs + 1)]
    big = convs.enc(*convs.store_rq_pdus(3, frag=30000))
    ignorable = []
    for i in range(n_msgs):
        ignorable += [flood[i], convs.enc(convs.REL_RQ)[0], convs.enc(convs.REL_RP)[0]][:1 + i % 3]
    for name, role, steps, min_inds in (
            ('acc-echo-flood', 'acceptor', [('burst', convs.enc(convs.RQ_SPEC)), ('user', {'pdu': convs.AC_SPEC}),
                                            ('burst', flood + convs.enc(convs.ABORT_SP)), ('close',)], n_msgs),
            # the local user has aborted; what the peer had in flight (a lot) still arrives and is ignored (AA-6)
            ('acc-aborted-peer-floods', 'acceptor', [('burst', convs.enc(convs.RQ_SPEC)), ('user', {'pdu': convs.AC_SPEC}),
                                                     ('user', {'pdu': convs.ABORT_SU}), ('burst', ignorable), ('close',)], 1),
            ('req-released-peer-floods', 'requestor', [('user', {'pdu': convs.RQ_SPEC}), ('burst', convs.enc(convs.AC_SPEC)),
                                                       ('burst', convs.enc(convs.REL_RQ)), ('user', {'pdu': convs.REL_RP}),
                                                       ('burst', ignorable), ('close',)], 2),
            ('req-flood-with-big-pdus', 'requestor', [('user', {'pdu': convs.RQ_SPEC}), ('burst', convs.enc(convs.AC_SPEC)),
                                                      ('burst', flood[:n_msgs // 3] + big + flood[n_msgs // 3:] + big +
                                                       convs.enc(convs.REL_RQ)), ('user', {'pdu': convs.REL_RP}), ('close',)], n_msgs)):
        base = observe(role, steps, None, budget=400000)
        total = sum(len(r) for s_ in steps if s_[0] == 'burst' for r in s_[1])
        if base['outcome'] != 'returned' or len(base['inds']) < min_inds:
            ctx.fail('C03:baseline:%s' % base['outcome'], '%s: reference delivery: %s, %d indications'
                     % (name, base['outcome'], len(base['inds'])), {'conv': name, 'cuts': None, 'long': n_msgs})
            continue
        bi_big = max(range(len([1 for s_ in steps if s_[0] == 'burst'])),
                     key=lambda k: sum(len(r) for r in [s_ for s_ in steps if s_[0] == 'burst'][k][1]))
        n = sum(len(r) for r in [s_ for s_ in steps if s_[0] == 'burst'][bi_big][1])
        for chunk in (None, 65536, 4096, 1500, 997, 100):
            cuts = {} if chunk is None else {bi_big: list(range(chunk, n, chunk))}
            for fe, b2b in ((True, True), (False, False)) if chunk in (None, 4096) else ((True, True),):
                case = {'conv': name, 'long': n_msgs, 'chunk': chunk, 'first_eager': fe, 'b2b': b2b}
                ctx.case(('long', name, chunk, fe, b2b), True, labels=['long-stream', 'conv=' + name, 'bytes>64K'],
                         sample={'conv': name, 'stream_bytes': total, 'chunk': chunk, 'b2b': b2b})
                got = observe(role, steps, cuts, fe, b2b, budget=400000)
                try:
                    compare(name, base, got, case)
                except Violation as v:
                    ctx.fail(v.key, v.what, v.case)


def run_random(ctx, n):
    corpus = convs.corpus()
    names = sorted(corpus)
    bases = {}

    @st.composite
    def strat(draw):
        name = draw(st.sampled_from(names))
        role, steps = corpus[name]
        cuts = {}
        for bi, ln, _ in burst_info(steps):
            k = draw(st.integers(0, 8))
            cuts[bi] = sorted(set(draw(st.lists(st.integers(1, max(1, ln - 1)), min_size=k, max_size=k))))
        return name, cuts, draw(st.booleans()), draw(st.booleans())

    def fn(value):
        name, cuts, fe, b2b = value
        role, steps = corpus[name]
        if name not in bases:
            bases[name] = observe(role, steps, None)
        case = {'conv': name, 'cuts': {str(k): v for k, v in cuts.items()}, 'first_eager': fe, 'b2b': b2b}
        ctx.case((name, sorted(cuts.items()), fe, b2b), nontrivial(steps, cuts),
                 labels=['random-k-cuts', 'conv=' + name], sample=case)
        compare(name, bases[name], observe(role, steps, cuts, fe, b2b), case)
    hyp_search(ctx, strat(), fn, n, name='C03-random')


def history_script(hist, cuts_per_run, b2b):
    """Script for a generated history (vf/checks/c05.walk).  cuts_per_run = None: every PDU in its own segment
    after quiescence (reference).  Otherwise maximal runs of consecutive peer PDUs are concatenated and re-cut at
    the given offsets (a list per run)."""
    from .. import history as H, refpdu
    actions = []
    run_bytes = []
    run_i = [0]

    def flush():
        if not run_bytes:
            return
        if cuts_per_run is None:
            for b in run_bytes:
                actions.append({'k': 'seg', 'data': b, 'eager': False})
        else:
            stream = b''.join(run_bytes)
            cuts = cuts_per_run[run_i[0]] if run_i[0] < len(cuts_per_run) else []
            offs = [0] + sorted({c % len(stream) for c in cuts if len(stream) > 1 and c % len(stream)}) + [len(stream)]
            for k, (a, b) in enumerate(zip(offs, offs[1:])):
                actions.append({'k': 'seg', 'data': stream[a:b], 'eager': b2b and k > 0})
        run_i[0] += 1
        del run_bytes[:]
    for act in hist:
        if act['a'] == 'pdu':
            run_bytes.append(refpdu.enc_pdu(act['spec']))
        elif act['a'] == 'raw':
            run_bytes.append(act['data'])
        else:
            flush()
            actions.extend(H.to_script([dict(act, eager=False)]))
    flush()
    return actions


def observe_script(role, actions):
    sim = simnet.run_scenario(role, actions, budget=60000)
    out = sim.outcome
    return {'outcome': out[0] if out[0] != 'exception' else 'exception:' + lib_frame(out[1]),
            'detail': '' if out[0] == 'returned' else repr(out[1]),
            'inds': [convs.describe_ind(i) for i in sim.indications()], 'wire': sim.wire(),
            'final': {k: v for k, v in sim.final().items() if k in ('state', 'closed', 'sock_none')}, 'dropped': sim.dropped}


def run_generated(ctx, n):
    """Segmentation invariance over GENERATED conversations (the random walks of C05) instead of a fixed corpus."""
    from .c05 import walk

    @st.composite
    def strat(draw):
        role, hist, _own = draw(walk(max_len=16))
        cuts = [draw(st.lists(st.integers(1, 4000), min_size=0, max_size=5)) for _ in range(8)]
        return role, hist, cuts, draw(st.booleans())

    def fn(value):
        role, hist, cuts, b2b = value
        hist = [dict(a, eager=False) if a['a'] in ('pdu', 'raw', 'close') else a for a in hist]
        npdu = len([a for a in hist if a['a'] in ('pdu', 'raw')])
        if not npdu:
            return
        case = {'generated': True, 'role': role, 'history': hist, 'cuts': cuts, 'b2b': b2b}
        base = observe_script(role, history_script(hist, None, False))
        got = observe_script(role, history_script(hist, cuts, b2b))
        ctx.case(('gen', role, hist, cuts, b2b), any(cuts[:npdu]), labels=['generated-conversation', 'role=' + role],
                 sample={'role': role, 'history_len': len(hist), 'cuts': cuts[:3], 'b2b': b2b})
        compare('generated conversation', base, got, case)
    hyp_search(ctx, strat(), fn, n, name='C03-generated')


def shard_generated(ctx, job):
    quiet_warnings()
    run_generated(ctx, job['n'])


def run(ctx):
    quiet_warnings()
    corpus = convs.corpus()
    ctx.rule = ('for each of %d conversations (both roles): whole-burst, one-byte dribble, every single cut '
                'offset, pairs of cut offsets, Hypothesis k-cuts (k<=8); another association carried by a second provider of the same process between the two halves of each PDU; the first bytes of a PDU arriving before the local user action that precedes it; a peer PDU cut at every offset while it races a multi-fragment message the local user is sending; the read size of the provider set to exactly the length (a half, a third) of each PDU of the conversation; Hypothesis-generated conversations (the random walks of C05) re-cut at random offsets; two long pipelined streams (> 64 KiB, incl. 30 kB PDUs) in chunks of 100..65536 bytes; x first segment already waiting or not x '
                'segments back-to-back or each after quiescence; cuts are applied inside the byte string the peer '
                'sends between two local actions; long pipelined streams (> 64 KiB) incl. ~1800 ignorable PDUs arriving at once after a local abort / a confirmed release; compared with one-PDU-per-segment delivery; non-trivial = a cut '
                'falls strictly inside a PDU or >=2 PDUs share a segment; distinct by (conversation, cuts, modes)'
                % len(corpus))
    ctx.assumptions = ['transport modelled as an ordered byte stream delivered in arbitrary segments; kernel '
                       'effects (partial sendall) outside the model',
                       'the real DULServiceProvider.run() executes unmodified under vf/simnet.py']
    lens = {n: sum(x[1] for x in burst_info(s[1])) for n, s in corpus.items()}
    short = sorted(lens, key=lens.get)[:2]
    jobs = []
    for name in sorted(corpus):
        if ctx.thorough:
            jobs.append({'conv': name, 'all_modes': True, 'pairs': True,
                         'pair_stride': 1 if lens[name] < 450 else 1 + lens[name] ** 2 // 80000})
        else:
            jobs.append({'conv': name, 'all_modes': False, 'pairs': name in short, 'pair_stride': 1})
    parallel(ctx, run_conv, jobs)
    run_long(ctx, 3000 if ctx.thorough else 900)
    run_random(ctx, 2000 if ctx.thorough else 300)
    parallel(ctx, shard_generated, [{'n': 2000 if ctx.thorough else 60} for _ in range(16 if ctx.thorough else 8)])


def replay(case):
    quiet_warnings()
    if case.get('generated'):
        base = observe_script(case['role'], history_script(case['history'], None, False))
        got = observe_script(case['role'], history_script(case['history'], case['cuts'], case['b2b']))
        compare('generated conversation', base, got, case)
        return
    if 'long' in case:
        from ..common import Ctx
        sub = Ctx('C03', 'quick', 1)
        run_long(sub, case['long'])
        for key, ent in sorted(sub.failures.items()):
            raise Violation(key, ent['what'], ent['case'])
        return
    role, steps = convs.corpus()[case['conv']]
    base = observe(role, steps, None)
    if case.get('two_associations'):
        from ..common import Ctx
        sub = Ctx('C03', 'quick', 1)
        run_two_associations(sub, case['conv'], role, steps, base, sorted(convs.corpus()))
        for key, ent in sorted(sub.failures.items()):
            raise Violation(key, ent['what'], ent['case'])
        return
    if 'race_cut' in case:
        from ..common import Ctx
        sub = Ctx('C03', 'quick', 1)
        run_race(sub, case['conv'], role, steps)
        for key, ent in sorted(sub.failures.items()):
            raise Violation(key, ent['what'], ent['case'])
        return
    if 'early_prefix' in case:
        from ..common import Ctx
        sub = Ctx('C03', 'quick', 1)
        run_early_prefix(sub, case['conv'], role, steps, base)
        for key, ent in sorted(sub.failures.items()):
            raise Violation(key, ent['what'], ent['case'])
        return
    if 'read_size' in case:
        compare(case['conv'], base, observe(role, steps, None, max_pdu=case['read_size']), case)
        return
    if case['cuts'] is None:
        if base['outcome'] != 'returned':
            raise Violation('C03:baseline:%s' % base['outcome'], base['detail'], case)
        return
    cuts = {int(k): v for k, v in case['cuts'].items()}
    compare(case['conv'], base, observe(role, steps, cuts, case['first_eager'], case['b2b'],
                                        timeout_mode=case.get('timeout_mode', False)), case)
