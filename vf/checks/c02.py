"""C02 - wire format against PS3.8 9.3 / PS3.7 Annex D, both directions (DESIGN.md C02).

Direction a: library objects -> encode() -> strict reference parser -> same field values, and
             every self-reported length equals the extent the reference measured.
Direction b: reference-encoded conformant PDUs -> library decode() -> same field values.
"""
from __future__ import annotations

import warnings

from hypothesis import strategies as st

from .. import pdugen as g
from .. import refpdu
from ..common import Violation, HarnessError, hyp_search, parallel, lib_frame, quiet_warnings

LEVEL = 'exploration'


def _len_check(obj, n, what, case, header):
    """obj's self-reported lengths versus the reference extent n (header = 6 for PDUs, 4 items)."""
    tl = obj.total_length
    tl = tl() if callable(tl) else tl
    if tl != n:
        raise Violation('C02:length:total:%s' % type(obj).__name__,
                        '%s reports total length %r, %d bytes on the wire' % (what, tl, n), case)
    inner = getattr(obj, 'pdu_length', None) if header == 6 else getattr(obj, 'item_length', None)
    if inner is not None and inner != n - header:
        raise Violation('C02:length:inner:%s' % type(obj).__name__,
                        '%s reports length %r, %d bytes follow its header' % (what, inner, n - header),
                        case)


def check_lengths(obj, parsed, case):
    _len_check(obj, parsed['_n'], type(obj).__name__, case, 6)
    t = parsed['t']
    if t in (1, 2):
        if len(obj.variable_items) != len(parsed['items']):
            return
        for it, pit in zip(obj.variable_items, parsed['items']):
            _len_check(it, pit['_n'], type(it).__name__, case, 4)
            if pit['t'] == 0x20:
                _len_check(it.abs_sub_item, pit['abs']['_n'], 'AbstractSyntaxSubItem', case, 4)
                for ts, pts in zip(it.ts_sub_items, pit['ts']):
                    _len_check(ts, pts['_n'], 'TransferSyntaxSubItem', case, 4)
            elif pit['t'] == 0x21:
                _len_check(it.ts_sub_item, pit['ts']['_n'], 'TransferSyntaxSubItem', case, 4)
            elif pit['t'] == 0x50:
                for sub, psub in zip(it.user_data, pit['subs']):
                    _len_check(sub, psub['_n'], type(sub).__name__, case, 4)
    elif t == 4:
        for v, pv in zip(obj.data_value_items, parsed['pdvs']):
            _len_check(v, pv['_n'], 'PresentationDataValueItem', case, 4)


def direction_a(spec):
    case = {'kind': 'a', 'spec': spec}
    obj = g.build(spec)
    name = type(obj).__name__
    try:
        raw = obj.encode()
    except Exception as exc:
        raise Violation('C02:a:encode:%s:%s' % (name, lib_frame(exc)),
                        '%s.encode() raised %r' % (name, exc), case)
    try:
        parsed = refpdu.parse_pdu(raw)
    except refpdu.RefError as exc:
        raise Violation('C02:a:layout:%s' % name,
                        '%s.encode() is not a well-formed PDU: %s' % (name, exc), case)
    d = g.first_diff(g.norm_ae(spec), g.norm_ae(refpdu.strip_n(parsed)))
    if d:
        raise Violation('C02:a:fields:%s:%s' % (name, _gen(d)),
                        '%s: strict reading of encode() differs from the encoded values at %s'
                        % (name, d), case)
    check_lengths(obj, parsed, case)


def _gen(path):
    import re
    return re.sub(r'\[\d+\]', '[]', path)


def direction_b(spec, pad):
    case = {'kind': 'b', 'spec': spec, 'pad': pad}
    raw = refpdu.enc_pdu(spec, pad=pad)
    if refpdu.strip_n(refpdu.parse_pdu(raw)) != spec and spec['t'] not in (1, 2):
        raise HarnessError('reference encoder/parser disagree on %r' % (spec,))
    cls = g.pdu_class(spec['t'])
    name = cls.__name__
    try:
        obj = cls.decode(raw)
    except Exception as exc:
        raise Violation('C02:b:decode:%s:%s' % (name, lib_frame(exc)),
                        '%s.decode() of a conformant encoding raised %r' % (name, exc), case)
    got = g.extract(obj)
    d = g.first_diff(g.norm_ae(spec), g.norm_ae(got))
    if d:
        raise Violation('C02:b:fields:%s:%s' % (name, _gen(d)),
                        '%s.decode() of a conformant encoding differs at %s' % (name, d), case)
    # what decode() returns for given bytes does not depend on what happened to objects decoded earlier
    g.scramble(obj)
    try:
        got = g.extract(cls.decode(raw))
    except Exception as exc:
        raise Violation('C02:b:decode-again:%s:%s' % (name, lib_frame(exc)),
                        'second %s.decode() of the same bytes raised %r' % (name, exc), case)
    d = g.first_diff(g.norm_ae(spec), g.norm_ae(got))
    if d:
        raise Violation('C02:b:decode-history:%s:%s' % (name, _gen(d)),
                        '%s.decode() of the same conformant bytes differs at %s once the object decoded first was '
                        'modified by its owner' % (name, d), case)


def check_object(obj, spec, case, tag):
    """Direction-a oracle on an existing library object that is supposed to carry `spec`."""
    name = type(obj).__name__
    try:
        raw = obj.encode()
    except Exception as exc:
        raise Violation('C02:%s:encode:%s:%s' % (tag, name, lib_frame(exc)), '%s.encode() raised %r' % (name, exc), case)
    try:
        parsed = refpdu.parse_pdu(raw)
    except refpdu.RefError as exc:
        raise Violation('C02:%s:layout:%s' % (tag, name), '%s.encode() after modification is not a well-formed PDU: %s'
                        % (name, exc), case)
    d = g.first_diff(g.norm_ae(spec), g.norm_ae(refpdu.strip_n(parsed)))
    if d:
        raise Violation('C02:%s:fields:%s:%s' % (tag, name, _gen(d)), '%s: strict reading differs from the object at %s'
                        % (name, d), case)
    check_lengths(obj, parsed, case)


def direction_mutated(spec1, spec2, decoded_origin):
    """A PDU object that was already encoded (or that came out of decode()) is modified through its public
    attributes and encoded again: the bytes must describe the object as it is NOW."""
    import copy
    case = {'kind': 'm', 'spec': spec1, 'spec2': spec2, 'decoded_origin': decoded_origin}
    try:
        obj = g.build(spec1)
        raw1 = obj.encode()
        obj.total_length()
        if decoded_origin:
            obj = g.pdu_class(spec1['t']).decode(raw1)
    except Exception as exc:
        raise Violation('C02:m:first-encoding:%s' % lib_frame(exc), 'building, encoding and decoding the PDU before it '
                        'is modified raised %r' % (exc,), case)
    expected = copy.deepcopy(spec1)
    if spec1['t'] in (1, 2):
        ui2 = [it for it in spec2['items'] if it['t'] == 0x50]
        done = False
        if ui2:
            for item, espec in zip(obj.variable_items, expected['items']):
                if espec['t'] == 0x50:
                    item.user_data = [g.build_sub(x) for x in ui2[0]['subs']]
                    espec['subs'] = copy.deepcopy(ui2[0]['subs'])
                    done = True
        if not done:
            obj.variable_items = [g.build_item(i) for i in spec2['items']]
            expected['items'] = copy.deepcopy(spec2['items'])
        obj.called_ae_title = spec2['called']
        expected['called'] = spec2['called']
    elif spec1['t'] == 4:
        from pynetdicom2 import pdu
        obj.data_value_items = [pdu.PresentationDataValueItem(v['id'], v['data']) for v in spec2['pdvs']]
        expected['pdvs'] = copy.deepcopy(spec2['pdvs'])
    else:
        return False
    check_object(obj, expected, case, 'mut')
    return True


def nontrivial(spec):
    t = spec['t']
    if t in (1, 2):
        nested = len(spec['items'])
        unknown = False
        for it in spec['items']:
            if it['t'] == 0x50:
                nested += len(it['subs'])
                unknown = unknown or any('data' in s for s in it['subs'])
            elif it['t'] == 0x20:
                nested += 1 + len(it['ts'])
        return nested >= 2 or unknown
    if t == 4:
        return len(spec['pdvs']) >= 2
    return any(v for k, v in spec.items() if k != 't')


def labels(spec, direction):
    from .c01 import labels as l1
    return ['dir=' + direction] + l1(spec)


def run_a(ctx, n):
    def fn(spec):
        ctx.case(('a', spec), nontrivial(spec), labels=labels(spec, 'a'), sample={'dir': 'a', 'spec': spec})
        direction_a(spec)
    hyp_search(ctx, g.any_pdu(strict=False, free_order=True), fn, n, name='C02-a')


def run_b(ctx, n):
    strat = st.tuples(g.any_pdu(strict=True, free_order=True), st.sampled_from([b' ', b'\0']))

    def fn(value):
        spec, pad = value
        ctx.case(('b', spec), nontrivial(spec), labels=labels(spec, 'b'), sample={'dir': 'b', 'spec': spec})
        direction_b(spec, pad)
    hyp_search(ctx, strat, fn, n, name='C02-b')


def run_mutated(ctx, n):
    same_kind = st.sampled_from([1, 2, 4]).flatmap(
        lambda t: st.tuples(g.assoc_pdu(t) if t != 4 else g.pdata_pdu(False), g.assoc_pdu(t) if t != 4 else g.pdata_pdu(False),
                            st.booleans()))

    def fn(value):
        s1, s2, dec = value
        ctx.case(('m', s1, s2, dec), True, labels=['dir=modified-after-%s' % ('decode' if dec else 'encode'), 'pdu=%d' % s1['t']],
                 sample={'dir': 'modified', 'decoded_origin': dec, 'spec': s1})
        direction_mutated(s1, s2, dec)
    hyp_search(ctx, same_kind, fn, n, name='C02-mutated')


def run_pairs(ctx):
    """Every ordered pair of sub-item kinds (incl. unknown 57H) reference-encoded, both directions."""
    from .c01 import wrap_subs
    for a in g.SUB_KINDS:
        for b in g.SUB_KINDS:
            strat = st.tuples(st.sampled_from([1, 2]), g.sub_item(a, True), g.sub_item(b, True))

            def fn(value):
                kind, sa, sb = value
                spec = wrap_subs(kind, g._fit([sa, sb]))
                ctx.case(('p', spec), True, labels=['pair-enum'], sample=None)
                direction_a(spec)
                direction_b(spec, b' ')
            hyp_search(ctx, strat, fn, 2, name='C02-pairs', max_buckets=2)


def shard(ctx, job):
    quiet_warnings()
    run_a(ctx, job['n'])
    run_b(ctx, job['n'])
    run_mutated(ctx, job['n'] // 4)


def run(ctx):
    quiet_warnings()
    try:
        refpdu.self_test()
    except refpdu.RefError as exc:
        raise HarnessError('reference codec self-test: %s' % exc)
    ctx.rule = ('direction a: C01 specs built with the public constructors, encoded by the library, '
                'parsed by the strict reference parser; direction b: independently generated '
                'conformant specs (sub-items in any order, unknown sub-item types 57H/5AH-FFH, 1-4 '
                'transfer syntaxes, 1-5 PDVs, space or NUL padded AE titles) encoded by the '
                'reference encoder and decoded by the library; plus all 81 sub-item pairs in both '
                'directions; plus objects modified through their public attributes after a first encode() or after '
                'decode() and encoded again; non-trivial = >=2 nested items, an unknown sub-item or >=2 PDVs; '
                'distinct by (direction, spec)')
    ctx.assumptions = ['reference codec transcribed from PS3.8 9.3 and PS3.7 Annex D (vf/refpdu.py)',
                       'AE titles compared modulo leading/trailing spaces and NULs',
                       'binary-valued user identity fields are generated as UTF-8 text only']
    if ctx.thorough:
        run_pairs(ctx)
        parallel(ctx, shard, [{'n': 8000} for _ in range(16)])
    else:
        run_pairs(ctx)
        run_a(ctx, 1500)
        run_b(ctx, 1500)
        run_mutated(ctx, 400)


def replay(case):
    quiet_warnings()
    if case['kind'] == 'm':
        direction_mutated(case['spec'], case['spec2'], case['decoded_origin'])
    elif case['kind'] == 'a':
        direction_a(case['spec'])
    else:
        direction_b(case['spec'], case.get('pad', b' '))
