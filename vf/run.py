"""Entry point: python -m vf.run <ID> --tier quick|thorough [--replay FILE]"""
from __future__ import annotations

import argparse
import importlib
import json
import os
import sys

from . import common


def main(argv=None):
    ap = argparse.ArgumentParser()
    ap.add_argument('prop')
    ap.add_argument('--tier', default=os.environ.get('VERIF_TIER', 'quick'),
                    choices=['quick', 'thorough'])
    ap.add_argument('--replay', default=None)
    args = ap.parse_args(argv)
    prop = args.prop.upper()
    try:
        seed = int(os.environ.get('VERIF_SEED', '1') or '1')
    except ValueError:
        seed = 1
    try:
        common.bootstrap()
        mod = importlib.import_module('vf.checks.%s' % prop.lower())
    except common.HarnessError as exc:
        common.harness_exit(exc)
    except Exception as exc:  # pragma: no cover
        common.harness_exit(exc)

    if args.replay:
        with open(args.replay) as fh:
            body = json.load(fh)
        case = common.from_jsonable(body['case'])
        if isinstance(case, dict) and case.get('_ambient_optimize') and not sys.flags.optimize:
            # met under `python -O`: replayed under `python -O`
            os.execv(sys.executable, [sys.executable, '-O', '-m', 'vf.run', prop, '--replay', args.replay])
        if isinstance(case, dict):
            case.pop('_ambient_optimize', None)
        if isinstance(case, dict) and case.pop('_ambient_logging', False):
            common.set_logging(True)
        if isinstance(case, dict) and case.pop('_ambient_warnings', False):
            import warnings
            warnings.simplefilter('ignore')
            common.set_warnings(True)
        if isinstance(case, dict) and case.pop('_ambient_faults', False):
            common.provoke_faults()       # (met right after failed operations in the same thread: replayed after them)
        try:
            mod.replay(case)
        except common.Violation as v:
            print('VIOLATION property=%s replay=%s' % (prop, args.replay))
            print('  key=%s what=%s' % (v.key, v.what))
            return 1
        except common.HarnessError as exc:
            common.harness_exit(exc)
        print('replay of %s: property held' % args.replay)
        return 0

    ctx = common.Ctx(prop, args.tier, seed, level=getattr(mod, 'LEVEL', 'exploration'))
    try:
        mod.run(ctx)
    except common.HarnessError as exc:
        common.harness_exit(exc)
    except common.Violation as v:
        ctx.fail(v.key, v.what, v.case)
    except Exception as exc:
        # an unexpected exception in the harness itself is not a verdict about the property
        common.harness_exit(exc)
    return common.finish(ctx)


if __name__ == '__main__':
    rc = main()
    # provider threads of the library under test are non-daemon and spin while idle: a broken tree may leave one
    # running, which must not keep the check from terminating
    sys.stdout.flush()
    sys.stderr.flush()
    os._exit(rc if isinstance(rc, int) else 0)
