"""C17 - every SCP response correlates with its request (message id, UIDs, context, type, status)."""
from __future__ import annotations

import warnings

from hypothesis import strategies as st

from .. import dimsegen as dg, fakedul as fd, refcmd, svc
from ..common import Violation, HarnessError, hyp_search, parallel, lib_frame, quiet_warnings

LEVEL = 'exploration'
PROP = 'C17'

MSG_IDS = [0, 1, 2, 255, 256, 32767, 32768, 65534, 65535]
msg_ids = st.one_of(st.sampled_from(MSG_IDS), st.integers(0, 65535))
pc_ids = st.integers(0, 127).map(lambda x: 2 * x + 1)
uids = dg.uid_text
STATUS_CODES = [0x0000, 0xB000, 0xB006, 0xB007, 0xA700, 0xA900, 0xC000, 0xC123, 0x0110, 0x0122, 0xFE00, 0x0001]
outcomes = st.one_of(st.sampled_from(STATUS_CODES).map(lambda c: ('status', c)), st.integers(0, 5).map(lambda k: ('raise', k)),
                     st.integers(0, 0xFFFF).map(lambda c: ('status', c)))
REMOTE = {'aet': 'DEST', 'address': 'dest.example', 'port': 11112}


def alias(service, uid_list, in_file=None):
    def wrapper(asce, ctx, msg):
        return service(asce, ctx, msg)
    wrapper.sop_classes = list(uid_list)
    if in_file if in_file is not None else getattr(service, 'store_in_file', False):
        wrapper.store_in_file = True
    return wrapper


class AppCode(int):
    """An application's own integer type for status codes (what enum.IntEnum members are)."""


def handling_error(k):
    """EventHandlingError as applications raise it: without arguments, with a text, or with details of what went
    wrong (an errno, a code of their own) - none of which is a DIMSE status."""
    from pynetdicom2 import exceptions
    args = [(), ('scripted',), (0, 'database offline'), ('404',), (28, 'No space left on device'), (0xB000, 'see log')]
    return exceptions.EventHandlingError(*args[(k or 0) % len(args)])


def outcome_handler(outcome, cmd_name, record=None):
    from pynetdicom2 import statuses, dimsemessages, exceptions

    def handler(*args):
        if record is not None:
            record.append(args)
        if outcome[0] == 'raise':
            raise handling_error(outcome[1])
        code = outcome[1]
        if code % 4 == 1 or code in (0xFF00, 0xB000):
            code = AppCode(code)        # (the application keeps its codes in an int subclass - an IntEnum, say)
        return statuses.Status(code, getattr(dimsemessages, cmd_name))
    return handler


def is_failure_for(cf):
    """Predicate: status is of the Failure class for response command field cf (independent table of C18)."""
    from .c18 import specific_class, general_tolerated

    def pred(code):
        if not isinstance(code, int) or code == 0:
            return False
        sp = specific_class(cf, code)
        return sp == 'Failure' if sp else True
    return pred


LAZY = [False]       # slow-provider mode (queued messages encoded late), toggled by run_family


def run_primary(ae, contexts, messages, sub_plans=(), case=None, ts=svc.IMPLICIT):
    try:
        acc, fac, exc = fd.run_acceptor(ae, [svc.primary_plan(contexts, messages, ts)] + list(sub_plans), lazy=LAZY[0])
    finally:
        ae.server_close()
    return acc, fac, exc


def expect_clean(exc, case, what):
    from pynetdicom2 import exceptions
    if exc is not None:
        raise Violation('%s:%s:exception:%s' % (PROP, what, lib_frame(exc)),
                        '%s: provider raised %r, request left unanswered or association torn down' % (what, exc), case)


# ---- C-ECHO ------------------------------------------------------------------------------------
def echo_case(value):
    msg_id, sop, pc_id, outcome = value
    from pynetdicom2 import sopclass
    case = {'svc': 'verification_scp', 'msg_id': msg_id, 'sop': sop, 'pc_id': pc_id, 'outcome': outcome}
    ae = svc.make_server({'on_receive_echo': outcome_handler(outcome, 'CEchoRSPMessage')},
                         [alias(sopclass.verification_scp, [sop])])
    req = {0x0002: sop, 0x0100: 0x0030, 0x0110: msg_id}
    # the peer negotiated the same class on two contexts and uses both
    pc2 = (pc_id + 2) % 256 or 1
    req2 = {0x0002: sop, 0x0100: 0x0030, 0x0110: (msg_id + 1) & 0xFFFF}
    acc, fac, exc = run_primary(ae, [(pc_id, sop), (pc2, sop)], [(req, None, pc_id), (req2, None, pc2), (req, None, pc_id)])
    expect_clean(exc, case, 'C-ECHO')
    rsps = fac.instances[0].sent_msgs()
    if len(rsps) != 3:
        raise Violation('%s:C-ECHO-RQ:answers' % PROP, '3 C-ECHO requests got %d responses' % len(rsps), case)
    want = 0x0110 if outcome[0] == 'raise' else outcome[1]
    svc.check_response(PROP, req, rsps[0], pc_id, lambda s: s == want, case)
    svc.check_response(PROP, req2, rsps[1], pc2, lambda s: s == want, case, what='(second context of the same class) ')
    svc.check_response(PROP, req, rsps[2], pc_id, lambda s: s == want, case)


# ---- C-STORE -----------------------------------------------------------------------------------
def store_case(value):
    msg_id, sop, inst, pc_id, outcome, in_file, n = value
    # in_file doubles as a switch: the request names a second served class than the one its context was
    # negotiated for (the response must repeat the REQUEST's class)
    sop_msg = (sop + '.9')[:64] if in_file and len(sop) < 62 else sop
    from pynetdicom2 import sopclass
    case = {'svc': 'storage_scp', 'msg_id': msg_id, 'sop': sop, 'inst': inst, 'pc_id': pc_id, 'outcome': outcome,
            'in_file': in_file, 'n': n}
    got = []
    ae = svc.make_server({'on_receive_store': outcome_handler(outcome, 'CStoreRSPMessage', got)},
                         [alias(sopclass.storage_scp, sorted({sop, sop_msg}))])
    data = svc.enc_ds(svc.simple_ds(PatientName='A^B', SOPClassUID=sop_msg, SOPInstanceUID=inst))
    reqs = [{0x0002: sop_msg, 0x0100: 0x0001, 0x0110: (msg_id + k) & 0xFFFF, 0x0700: 0, 0x1000: inst} for k in range(n)]
    pc2 = (pc_id + 2) % 256 or 1
    pcs = [pc_id if k % 2 == 0 else pc2 for k in range(n)]
    acc, fac, exc = run_primary(ae, [(pc_id, sop), (pc2, sop)], [(r, data, p) for r, p in zip(reqs, pcs)])
    expect_clean(exc, case, 'C-STORE')
    rsps = fac.instances[0].sent_msgs()
    if len(rsps) != n:
        raise Violation('%s:C-STORE-RQ:answers' % PROP, '%d C-STORE requests got %d responses' % (n, len(rsps)), case)
    want = 0xC000 if outcome[0] == 'raise' else outcome[1]
    for r, rsp, p in zip(reqs, rsps, pcs):
        svc.check_response(PROP, r, rsp, p, lambda s: s == want, case)
    if len(got) != n:
        raise Violation('%s:C-STORE-RQ:handler' % PROP, 'handler called %d times for %d requests' % (len(got), n), case)


# ---- C-FIND ------------------------------------------------------------------------------------
def find_case(value, service_name='qr_find_scp', sop_default=None):
    msg_id, sop, pc_id, nmatch, outcome_kind = value
    from pynetdicom2 import sopclass, statuses, exceptions
    case = {'svc': service_name, 'msg_id': msg_id, 'sop': sop, 'pc_id': pc_id, 'nmatch': nmatch, 'outcome': outcome_kind}

    def on_find(ctx, ds):
        if outcome_kind == 'raise-at-call':
            raise handling_error(msg_id)

        def gen():
            for i in range(nmatch):
                if outcome_kind == 'raise-midway' and i == nmatch // 2:
                    raise handling_error(msg_id)
                yield svc.simple_ds(PatientName='M%d' % i), statuses.C_FIND_PENDING
            if outcome_kind == 'raise-midway' and nmatch == 0:
                raise handling_error(msg_id)
        return gen()
    ae = svc.make_server({'on_receive_find': on_find}, [alias(getattr(sopclass, service_name), [sop])])
    req = {0x0002: sop, 0x0100: 0x0020, 0x0110: msg_id, 0x0700: 0}
    ident = svc.enc_ds(svc.simple_ds(PatientName='*', QueryRetrieveLevel='PATIENT'))
    acc, fac, exc = run_primary(ae, [(pc_id, sop)], [(req, ident, pc_id)])
    expect_clean(exc, case, 'C-FIND')
    rsps = fac.instances[0].sent_msgs()
    if not rsps:
        raise Violation('%s:C-FIND-RQ:answers' % PROP, 'C-FIND request was not answered', case)
    finals = [r for r in rsps if r['fields'].get(0x0900) not in (0xFF00, 0xFF01)]
    if len(finals) != 1 or finals[0] is not rsps[-1]:
        raise Violation('%s:C-FIND-RQ:final' % PROP, 'statuses %r: not exactly one final response, last'
                        % ([r['fields'].get(0x0900) for r in rsps],), case)
    for rsp in rsps[:-1]:
        svc.check_response(PROP, req, rsp, pc_id, lambda s: s in (0xFF00, 0xFF01), case)
    if outcome_kind == 'ok':
        svc.check_response(PROP, req, rsps[-1], pc_id, lambda s: s == 0, case)
        if len(rsps) != nmatch + 1:
            raise Violation('%s:C-FIND-RQ:count' % PROP, '%d matches, %d responses' % (nmatch, len(rsps)), case)
    else:
        svc.check_response(PROP, req, rsps[-1], pc_id, is_failure_for(0x8020), case, what='(handler raised) ')


# ---- C-MOVE ------------------------------------------------------------------------------------
def move_case(value):
    msg_id, sop, pc_id, nsub, store_statuses, outcome_kind = value[:6]
    confirm = value[6] if len(value) > 6 else True      # does the destination confirm the release of its association?
    from pynetdicom2 import sopclass, exceptions
    case = {'svc': 'qr_move_scp', 'msg_id': msg_id, 'sop': sop, 'pc_id': pc_id, 'nsub': nsub,
            'store_statuses': store_statuses, 'outcome': outcome_kind, 'dest_confirms_release': confirm}

    def on_move(ctx, ds, destination):
        if outcome_kind == 'raise':
            raise handling_error(msg_id)
        dss = [svc.simple_ds(PatientName='S%d' % i, SOPClassUID=svc.SC_STORAGE, SOPInstanceUID='1.2.3.%d' % (i + 1))
               for i in range(nsub)]
        return dict(REMOTE), nsub, iter(dss)
    ae = svc.make_server({'on_receive_move': on_move}, [alias(sopclass.qr_move_scp, [sop])])
    ae.add_scu(sopclass.storage_scu, [svc.SC_STORAGE])
    req = {0x0002: sop, 0x0100: 0x0021, 0x0110: msg_id, 0x0600: 'DEST', 0x0700: 0}
    ident = svc.enc_ds(svc.simple_ds(PatientID='1', QueryRetrieveLevel='PATIENT'))
    dest_max = (16384, 90, 0)[(msg_id + nsub) % 3]
    case['destination_max'] = dest_max
    acc, fac, exc = run_primary(ae, [(pc_id, sop)], [(req, ident, pc_id)],
                                [svc.sub_plan(store_statuses, confirm_release=confirm, max_len=dest_max)])
    if len(fac.instances) > 1 and dest_max:
        too = [max(m['pdu_lengths']) for m in fac.instances[1].sent_msgs() if max(m['pdu_lengths']) > dest_max]
        if too:
            raise Violation('%s:C-MOVE-RQ:sub-operation-too-long' % PROP, 'C-STORE sub-operation sent in P-DATA-TF PDUs of %d bytes, '
                            'the destination announced %d' % (max(too), dest_max), case)
    if confirm or nsub == 0 or outcome_kind == 'raise':
        expect_clean(exc, case, 'C-MOVE')
    elif exc is not None and not isinstance(exc, exceptions.NetDICOMError):
        expect_clean(exc, case, 'C-MOVE')       # (a library time-out after everything was answered is fine)
    rsps = fac.instances[0].sent_msgs()
    if not rsps:
        raise Violation('%s:C-MOVE-RQ:answers' % PROP, 'C-MOVE request was not answered', case)
    finals = [r for r in rsps if r['fields'].get(0x0900) != 0xFF00]
    if len(finals) != 1 or finals[0] is not rsps[-1]:
        raise Violation('%s:C-MOVE-RQ:final' % PROP, 'statuses %r: not exactly one final response, last'
                        % ([r['fields'].get(0x0900) for r in rsps],), case)
    for rsp in rsps[:-1]:
        svc.check_response(PROP, req, rsp, pc_id, lambda s: s == 0xFF00, case)
    if outcome_kind == 'raise':
        svc.check_response(PROP, req, rsps[-1], pc_id, is_failure_for(0x8021), case, what='(handler raised) ')
    else:
        svc.check_response(PROP, req, rsps[-1], pc_id, lambda s: isinstance(s, int) and s != 0xFF00, case)


# ---- N-ACTION (storage commitment request) -------------------------------------------------------
def commitment_ds(transaction, refs):
    from pydicom.dataset import Dataset
    from pydicom.sequence import Sequence
    ds = Dataset()
    ds.TransactionUID = transaction
    seq = []
    for c, i in refs:
        it = Dataset()
        it.ReferencedSOPClassUID = c
        it.ReferencedSOPInstanceUID = i
        seq.append(it)
    ds.ReferencedSOPSequence = Sequence(seq)
    return ds


PRINT_LIKE = '1.2.840.10008.5.1.1.1'
_OTHER_DISPATCHER = []


def other_dispatcher_service():
    """An application-defined provider built on the documented MessageDispatcherSCP base (a print or MPPS provider,
    say) that serves N-ACTION and N-EVENT-REPORT of its own SOP class in the same process."""
    from pynetdicom2 import sopclass, dimsemessages
    if not _OTHER_DISPATCHER:
        class FilmSession(sopclass.MessageDispatcherSCP):
            sop_classes = [PRINT_LIKE]
            calls = []

            def n_action(self, asce, ctx, msg):
                self.calls.append('n_action')
                rsp = dimsemessages.NActionRSPMessage()
                rsp.message_id_being_responded_to = msg.message_id
                rsp.sop_class_uid = ctx.sop_class
                rsp.status = 0
                rsp.action_type_id = msg.action_type_id
                rsp.affected_sop_instance_uid = msg.requested_sop_instance_uid
                asce.send(rsp, ctx.id)

            def n_event_report(self, asce, ctx, msg):
                self.calls.append('n_event_report')
                rsp = dimsemessages.NEventReportRSPMessage()
                rsp.message_id_being_responded_to = msg.message_id
                rsp.sop_class_uid = ctx.sop_class
                rsp.status = 0
                rsp.event_type_id = msg.event_type_id
                rsp.affected_sop_instance_uid = msg.affected_sop_instance_uid
                asce.send(rsp, ctx.id)
        _OTHER_DISPATCHER.append(FilmSession)
    return _OTHER_DISPATCHER[0]


def use_other_dispatcher(case):
    """Earlier in this process another dispatcher-based service handled an N-ACTION and an N-EVENT-REPORT."""
    cls = other_dispatcher_service()
    ae = svc.make_server({}, [cls()])
    before = len(cls.calls)
    msgs = [({0x0003: PRINT_LIKE, 0x0100: 0x0130, 0x0110: 1, 0x1001: '1.2.3.4', 0x1008: 1}, None, 1),
            ({0x0002: PRINT_LIKE, 0x0100: 0x0100, 0x0110: 2, 0x1000: '1.2.3.4', 0x1002: 1}, None, 1)]
    acc, fac, exc = run_primary(ae, [(1, PRINT_LIKE)], msgs + ['release'])
    if exc is not None or cls.calls[before:] != ['n_action', 'n_event_report']:
        raise Violation('%s:dispatcher:own-service' % PROP, 'an application-defined dispatcher service did not get its own '
                        'N-ACTION / N-EVENT-REPORT requests: calls %r, exception %r' % (cls.calls[before:], exc), case)


def action_case(value):
    msg_id, pc_id, transaction, nok, nfail, outcome_kind = value[:6]
    form = value[6] if len(value) > 6 else 'list'
    from pynetdicom2 import sopclass, exceptions
    case = {'svc': 'StorageCommitment.n_action', 'msg_id': msg_id, 'pc_id': pc_id, 'transaction': transaction,
            'nok': nok, 'nfail': nfail, 'outcome': outcome_kind, 'form': form}

    def shaped(seq):
        # the handler is documented to return 'iterable or None'
        if form == 'tuple':
            return tuple(seq)
        if form == 'iterator':
            return iter(list(seq))
        if form == 'generator':
            return (x for x in list(seq))
        if form == 'none-if-empty' and not seq:
            return None
        return list(seq)
    refs = [(svc.CT_STORAGE, '1.2.3.4.%d' % (i + 1)) for i in range(nok + nfail)]
    ok = refs[:nok]
    bad = [(c, i, 0x0112) for c, i in refs[nok:]]
    seen = []
    if (msg_id + nok) % 3 == 1:
        use_other_dispatcher(case)

    def on_request(remote_ae, uids_):
        seen.append((remote_ae, list(uids_)))
        if outcome_kind == 'raise':
            raise handling_error(msg_id)
        return dict(REMOTE), shaped(ok), shaped(bad)
    ae = svc.make_server({'on_commitment_request': on_request}, [sopclass.StorageCommitment()])
    req = {0x0003: svc.COMMITMENT, 0x0100: 0x0130, 0x0110: msg_id, 0x1001: svc.COMMITMENT_INSTANCE, 0x1008: 1}
    data = svc.enc_ds(commitment_ds(transaction, refs))
    # the node the report goes to announces its own (here: much smaller) maximum PDU length on that association
    sub_max = (64, 16384, 0, 200)[(msg_id + nok) % 4]
    case['report_destination_max'] = sub_max
    acc, fac, exc = run_primary(ae, [(pc_id, svc.COMMITMENT)], [(req, data, pc_id)], [svc.sub_plan(max_len=sub_max)])
    expect_clean(exc, case, 'N-ACTION')
    rsps = fac.instances[0].sent_msgs()
    if len(rsps) != 1:
        raise Violation('%s:N-ACTION-RQ:answers' % PROP, 'N-ACTION request got %d responses' % len(rsps), case)
    want = 0x0110 if outcome_kind == 'raise' else 0
    svc.check_response(PROP, req, rsps[0], pc_id, lambda s: s == want, case)
    if rsps[0]['fields'].get(0x1008) != 1:
        raise Violation('%s:N-ACTION-RQ:action-type' % PROP, 'Action Type ID %r in response' % (rsps[0]['fields'].get(0x1008),), case)
    if not seen or [tuple(u) for u in seen[0][1]] != refs:
        raise Violation('%s:N-ACTION-RQ:handler-args' % PROP, 'handler received %r' % (seen,), case)
    if outcome_kind == 'raise':
        if len(fac.instances) > 1 and fac.instances[1].sent_msgs():
            raise Violation('%s:N-ACTION-RQ:report-after-failure' % PROP, 'N-EVENT-REPORT sent although the handler failed', case)
        return
    # the N-EVENT-REPORT on the sub-association
    if len(fac.instances) < 2:
        raise Violation('%s:N-EVENT-REPORT:missing' % PROP, 'no association opened for the commitment result', case)
    sub = fac.instances[1]
    rq = sub.sent_pdus(1)
    if not rq or rq[0]['spec'].get('called', '').strip(' \0') != 'DEST':
        raise Violation('%s:N-EVENT-REPORT:destination' % PROP, 'sub-association called %r'
                        % (rq and rq[0]['spec'].get('called'),), case)
    reports = sub.sent_msgs()
    if len(reports) != 1 or reports[0]['fields'].get(0x0100) != 0x0100:
        raise Violation('%s:N-EVENT-REPORT:missing' % PROP, '%d messages on the sub-association' % len(reports), case)
    rep = reports[0]
    if sub_max and max(rep['pdu_lengths']) > sub_max:
        raise Violation('%s:N-EVENT-REPORT:too-long' % PROP, 'the report was sent in P-DATA-TF PDUs of up to %d bytes; the node it '
                        'went to announced a maximum of %d on that association' % (max(rep['pdu_lengths']), sub_max), case)
    want_type = 2 if nfail else 1
    if rep['fields'].get(0x1002) != want_type:
        raise Violation('%s:N-EVENT-REPORT:event-type' % PROP, 'event type %r with %d failures'
                        % (rep['fields'].get(0x1002), nfail), case)
    if rep['fields'].get(0x0002) != svc.COMMITMENT or rep['fields'].get(0x1000) != svc.COMMITMENT_INSTANCE:
        raise Violation('%s:N-EVENT-REPORT:uids' % PROP, 'report SOP class/instance %r / %r'
                        % (rep['fields'].get(0x0002), rep['fields'].get(0x1000)), case)
    # the library encodes the report in the transfer syntax of the context the N-ACTION arrived on
    try:
        ds = svc.dec_ds(rep['data'] or b'', svc.IMPLICIT)
    except Exception as exc:
        raise Violation('%s:N-EVENT-REPORT:content' % PROP, 'report data set undecodable: %r' % (exc,), case)
    got_ok = [(str(i.ReferencedSOPClassUID), str(i.ReferencedSOPInstanceUID)) for i in getattr(ds, 'ReferencedSOPSequence', [])]
    got_bad = [(str(i.ReferencedSOPClassUID), str(i.ReferencedSOPInstanceUID), int(i.FailureReason))
               for i in getattr(ds, 'FailedSOPSequence', [])]
    if str(getattr(ds, 'TransactionUID', '')) != transaction or got_ok != ok or got_bad != bad:
        raise Violation('%s:N-EVENT-REPORT:content' % PROP, 'report carries transaction %r, success %r, failure %r'
                        % (getattr(ds, 'TransactionUID', None), got_ok, got_bad), case)


def action_retry_case(mode, k):
    """A commitment request whose result could NOT be reported (the node it should go to refuses / does not answer /
    does not confirm the release / the handler itself failed), and then the requester's retry with the SAME Transaction
    UID on a new association: the retry is a request like any other."""
    from pynetdicom2 import sopclass, exceptions
    transaction = '1.2.826.0.1.3680043.9.17.%d.%d' % (k, ('refuse', 'no-answer', 'release-unconfirmed', 'handler-failed').index(mode))
    refs = [(svc.CT_STORAGE, '1.2.3.4.%d' % (i + 1)) for i in range(2)]
    fail_handler = [mode == 'handler-failed']

    def on_request(remote_ae, uids_):
        if fail_handler[0]:
            raise handling_error(k)
        return dict(REMOTE), list(refs), []
    req = {0x0003: svc.COMMITMENT, 0x0100: 0x0130, 0x0110: 3, 0x1001: svc.COMMITMENT_INSTANCE, 0x1008: 1}
    data = svc.enc_ds(commitment_ds(transaction, refs))
    sub = {'refuse': svc.sub_plan(reject=(1, 1, 1)), 'no-answer': svc.sub_plan(respond=False),
           'release-unconfirmed': svc.sub_plan(confirm_release=False), 'handler-failed': svc.sub_plan()}[mode]
    ae = svc.make_server({'on_commitment_request': on_request}, [sopclass.StorageCommitment()])
    run_primary(ae, [(1, svc.COMMITMENT)], [(req, data, 1)], [sub])         # (however this one ends)
    fail_handler[0] = False
    # the retry, judged like every other request
    action_case((3, 1, transaction, 2, 0, 'ok', 'list'))


# ---- N-EVENT-REPORT (storage commitment result received) ------------------------------------------
def report_case(value):
    msg_id, pc_id, transaction, nok, nfail, outcome_kind = value
    from pynetdicom2 import sopclass, exceptions
    case = {'svc': 'StorageCommitment.n_event_report', 'msg_id': msg_id, 'pc_id': pc_id, 'transaction': transaction,
            'nok': nok, 'nfail': nfail, 'outcome': outcome_kind}
    refs = [(svc.CT_STORAGE, '1.2.3.4.%d' % (i + 1)) for i in range(nok + nfail)]
    seen = []
    if (msg_id + nok) % 3 == 1:
        use_other_dispatcher(case)

    def on_response(transaction_uid, success, failure):
        seen.append((str(transaction_uid), [tuple(map(str, s)) for s in success],
                     [(str(f[0]), str(f[1]), int(f[2])) for f in failure]))
        if outcome_kind == 'raise':
            raise handling_error(msg_id)
    ae = svc.make_server({'on_commitment_response': on_response}, [sopclass.StorageCommitment()])
    event_type = 2 if nfail else 1
    req = {0x0002: svc.COMMITMENT, 0x0100: 0x0100, 0x0110: msg_id, 0x1000: svc.COMMITMENT_INSTANCE, 0x1002: event_type}
    ds = commitment_ds(transaction, refs[:nok])
    if not nok:
        del ds.ReferencedSOPSequence
    if nfail:
        from pydicom.dataset import Dataset
        from pydicom.sequence import Sequence
        seq = []
        for c, i in refs[nok:]:
            it = Dataset()
            it.ReferencedSOPClassUID = c
            it.ReferencedSOPInstanceUID = i
            it.FailureReason = 0x0112
            seq.append(it)
        ds.FailedSOPSequence = Sequence(seq)
    acc, fac, exc = run_primary(ae, [(pc_id, svc.COMMITMENT)], [(req, svc.enc_ds(ds), pc_id)])
    expect_clean(exc, case, 'N-EVENT-REPORT')
    rsps = fac.instances[0].sent_msgs()
    if len(rsps) != 1:
        raise Violation('%s:N-EVENT-REPORT-RQ:answers' % PROP, 'N-EVENT-REPORT request got %d responses' % len(rsps), case)
    want = 0x0110 if outcome_kind == 'raise' else 0
    svc.check_response(PROP, req, rsps[0], pc_id, lambda s: s == want, case)
    if rsps[0]['fields'].get(0x1002) != event_type:
        raise Violation('%s:N-EVENT-REPORT-RQ:event-type' % PROP, 'Event Type ID %r in response, request had %d'
                        % (rsps[0]['fields'].get(0x1002), event_type), case)
    exp = (transaction, refs[:nok], [(c, i, 0x0112) for c, i in refs[nok:]])
    if not seen or seen[0] != exp:
        raise Violation('%s:N-EVENT-REPORT-RQ:handler-args' % PROP, 'handler received %r, expected %r' % (seen, exp), case)


# ------------------------------------------------------------------------------------------------
FAMILIES = {
    'echo': (st.tuples(msg_ids, uids, pc_ids, outcomes), echo_case),
    'store': (st.tuples(msg_ids, uids, uids, pc_ids, outcomes, st.booleans(), st.integers(1, 3)), store_case),
    'find': (st.tuples(msg_ids, uids, pc_ids, st.integers(0, 4), st.sampled_from(['ok', 'ok', 'ok', 'raise-at-call', 'raise-midway'])),
             find_case),
    'mwl': (st.tuples(msg_ids, uids, pc_ids, st.integers(0, 4), st.sampled_from(['ok', 'ok', 'raise-at-call'])),
            lambda v: find_case(v, 'modality_work_list_scp')),
    'move': (st.tuples(msg_ids, uids, pc_ids, st.integers(0, 4),
                       st.lists(st.sampled_from([0, 0, 0xB000, 0xA700, 0xC000]), min_size=1, max_size=4),
                       st.sampled_from(['ok', 'ok', 'ok', 'raise']), st.sampled_from([True, True, False])), move_case),
    'n_action': (st.tuples(msg_ids, pc_ids, uids, st.integers(0, 3), st.integers(0, 3), st.sampled_from(['ok', 'ok', 'raise']),
                           st.sampled_from(['list', 'tuple', 'iterator', 'generator', 'none-if-empty'])),
                 action_case),
    'n_event_report': (st.tuples(msg_ids, pc_ids, uids, st.integers(0, 3), st.integers(0, 3), st.sampled_from(['ok', 'ok', 'raise'])),
                       report_case),
}


def nontrivial(fam, value):
    return value[0] not in (0, 1) or any(v in ('raise', 'raise-at-call', 'raise-midway') or
                                         (isinstance(v, tuple) and v and v[0] == 'raise') for v in value)


def run_family(ctx, job):
    quiet_warnings()
    fam = job['family']
    strat, fn = FAMILIES[fam]
    # boundary message ids exhaustively with otherwise default values
    def wrapped(value):
        ctx.case((fam, value), nontrivial(fam, value), labels=['svc=' + fam], sample={'family': fam, 'case': value})
        for lazy in (False, True):
            LAZY[0] = lazy
            try:
                fn(value)
            except Violation as v:
                if lazy and isinstance(v.case, dict):
                    v.case['lazy'] = True
                    v.key += ':slow-provider'
                raise
            finally:
                LAZY[0] = False
    hyp_search(ctx, strat, wrapped, job['n'], name='C17-' + fam, max_buckets=6)
    if fam in ('echo',):
        for mid in MSG_IDS:
            v = (mid, svc.VERIFICATION, 1, ('status', 0))
            ctx.case((fam, 'boundary', mid), True, labels=['svc=echo', 'boundary-id'])
            ctx.check(fn, v)
    if fam == 'n_action':
        for k, mode in enumerate(('refuse', 'no-answer', 'release-unconfirmed', 'handler-failed') * 2):
            ctx.case((fam, 'retry', mode, k), True, labels=['svc=n_action', 'retry-after-failed-report'],
                     sample={'family': fam, 'first attempt': mode})
            try:
                action_retry_case(mode, k)
            except Violation as v:
                ctx.fail(v.key + ':retry', v.what + ' [a retry: the result of an earlier request with the same Transaction '
                         'UID could not be reported (%s)]' % mode, {'svc': 'n_action-retry', 'mode': mode, 'k': k})
    if fam in ('n_action', 'n_event_report'):
        for mid in MSG_IDS:
            for k, (nok, nfail) in enumerate(((2, 0), (0, 2), (1, 1), (0, 0))):
                v = (mid, 1, '1.2.3.99', nok, nfail, 'ok')
                if fam == 'n_action':
                    v += (('list', 'generator', 'iterator', 'tuple', 'none-if-empty')[(k + mid) % 5],)
                ctx.case((fam, 'boundary', mid, nok, nfail), True, labels=['svc=' + fam, 'boundary-id'])
                ctx.check(fn, v)


def run_get_user(ctx, job):
    """The C-STORE responses of the C-GET user (qr_get_scu): peer scripts of 1-5 sub-operation requests of two storage
    classes interleaved with pending C-GET responses, in memory and file-backed, handler outcomes of every kind; from the third
    request on optionally arriving on the other storage context.  Judged by the correlation oracle (message id, class,
    instance, context the request arrived on, handler status) through C19's C-GET harness."""
    quiet_warnings()
    from . import c19
    k = 0
    for script in ('S', 'SS', 'SPS', 'SSS', 'SPSPS', 'SSSSS'):
        for fb in (False, True, 'late'):
            for hos in (['s'] * 8, ['w', 'f', 's', 'raise'] * 2, ['raise', 's'] * 4):
                for cross in (False, True):
                    if cross and script.count('S') < 3:
                        continue
                    k += 1
                    mid = MSG_IDS[k % len(MSG_IDS)]
                    ctx.case(('get-user', script, fb, hos[0], cross, mid), True,
                             labels=['svc=qr_get_scu (C-STORE responses)'] + (['get: class arriving on a second context'] if cross else []),
                             sample={'family': 'qr_get_scu', 'peer script': script, 'file_backed': fb, 'handler': hos[:script.count('S')],
                                     'cross': cross, 'msg_id': mid})
                    try:
                        c19.get_case(script, hos, 0x0000, fb, mid, cross=cross)
                    except Violation as v:
                        case = dict(v.case, svc='qr_get_scu')
                        ctx.fail(v.key.replace('C19:', 'C17:get-user:', 1), v.what, case)


def run(ctx):
    quiet_warnings()
    ctx.rule = ('one Hypothesis search per provider callable (verification_scp, storage_scp in memory and file-backed, '
                'qr_find_scp, modality_work_list_scp, qr_move_scp with a scripted destination, StorageCommitment '
                'n_action incl. its N-EVENT-REPORT on the sub-association and a retry with the same Transaction UID after a result that could not be reported, an application-defined dispatcher service of another class having served N-ACTION / N-EVENT-REPORT earlier in the process, StorageCommitment n_event_report): message '
                'ids over the 16-bit range with boundaries enumerated, SOP class/instance UIDs of length 1-64, odd '
                'context ids 1-255, handler outcomes from every status class and EventHandlingError; requests are '
                'reference-encoded, responses are read from the bytes handed to the provider; non-trivial = '
                'non-default message id or a failure-branch outcome')
    ctx.assumptions = ['where the library documents no failure status for EventHandlingError (C-FIND, C-MOVE) any '
                       'Failure-class status is accepted, but the request must be answered',
                       'storage commitment requests use the well-known SOP instance 1.2.840.10008.1.20.1.1',
                       'provider replaced by vf/fakedul.py; the C-STORE responses of the C-GET user are judged through C19\'s harness '
                       '(an enumerated part here, the generated part in C19)']
    n = 2500 if ctx.thorough else 250
    parallel(ctx, run_family, [{'family': f, 'n': n} for f in sorted(FAMILIES)])
    parallel(ctx, run_get_user, [{}])


def replay(case):
    quiet_warnings()
    LAZY[0] = bool(case.get('lazy'))
    s = case['svc']
    if s == 'qr_get_scu':
        from . import c19
        c19.replay(dict(case, kind='get'))
        return
    if s == 'n_action-retry':
        action_retry_case(case['mode'], case['k'])
        return
    oc = case['outcome']
    if isinstance(oc, list):
        oc = tuple(oc)
    if s == 'verification_scp':
        echo_case((case['msg_id'], case['sop'], case['pc_id'], oc))
    elif s == 'storage_scp':
        store_case((case['msg_id'], case['sop'], case['inst'], case['pc_id'], oc, case['in_file'], case['n']))
    elif s in ('qr_find_scp', 'modality_work_list_scp'):
        find_case((case['msg_id'], case['sop'], case['pc_id'], case['nmatch'], oc), s)
    elif s == 'qr_move_scp':
        move_case((case['msg_id'], case['sop'], case['pc_id'], case['nsub'], case['store_statuses'], oc, case.get('dest_confirms_release', True)))
    elif s == 'StorageCommitment.n_action':
        action_case((case['msg_id'], case['pc_id'], case['transaction'], case['nok'], case['nfail'], oc, case.get('form', 'list')))
    else:
        report_case((case['msg_id'], case['pc_id'], case['transaction'], case['nok'], case['nfail'], oc))
