"""C07 - DIMSE reassembly is exact under any PDV grouping; completion detected exactly."""
from __future__ import annotations

import io
import itertools
import shutil
import struct
import tempfile
import warnings

from hypothesis import strategies as st

from .. import dimsegen as dg
from .. import refcmd, refpdu
from ..common import Violation, HarnessError, hyp_search, parallel, lib_frame, quiet_warnings
from .c06 import default_fields, PCIDS, norm

LEVEL = 'exploration'

# (for reassembly a data set is opaque bytes in whatever syntax was negotiated: compressed, deflated and private
#  syntaxes included)
TS = {'implicit': '1.2.840.10008.1.2', 'explicit': '1.2.840.10008.1.2.1', 'big': '1.2.840.10008.1.2.2',
      'deflated': '1.2.840.10008.1.2.1.99', 'jpeg': '1.2.840.10008.1.2.4.50', 'rle': '1.2.840.10008.1.2.5',
      'private': '1.2.826.0.1.3680043.9.77.1', 'htj2k': '1.2.840.10008.1.2.4.201'}
OPAQUE_TS = ['deflated', 'jpeg', 'rle', 'private', 'htj2k']
SOP = '1.2.840.10008.5.1.4.1.1.7'      # Secondary Capture Image Storage


def compositions(n):
    """All ways to cut a list of n fragments into consecutive non-empty groups (2^(n-1))."""
    for mask in range(1 << (n - 1)):
        groups, start = [], 0
        for i in range(n - 1):
            if mask >> i & 1:
                groups.append((start, i + 1))
                start = i + 1
        groups.append((start, n))
        yield groups


def real_dataset_bytes(ts_name, size_hint):
    """A genuine data set encoded in the given transfer syntax (independent of the library)."""
    import pydicom
    from pydicom.dataset import Dataset
    ds = Dataset()
    ds.PatientName = 'Test^Reassembly'
    ds.PatientID = 'ID%d' % size_hint
    ds.SOPClassUID = SOP
    ds.SOPInstanceUID = '1.2.3.%d' % (size_hint + 1)
    ds.BitsAllocated = 16
    ds.Rows = 3
    ds.Columns = max(1, size_hint)
    ds.PixelData = dg.patterned(2 * ((3 * max(1, size_hint) + 1) // 2))
    ds['PixelData'].VR = 'OW'
    fp = pydicom.filebase.DicomBytesIO()
    fp.is_implicit_VR = ts_name == 'implicit'
    fp.is_little_endian = ts_name != 'big'
    pydicom.filewriter.write_dataset(fp, ds)
    return fp.parent.getvalue()


# values a peer may put in Command Data Set Type (0000,0800) of a message that carries a data set:
# PS3.7 - anything other than 0101H
DSTYPES = [0x0001, 0x0000, 0x0102, 0xFFFF, 0x0100, 0x0001]


def run_case(cf, fields, data, M, pc_id, groups, reception, ts_name, frag_source='ref', real_ds=False, dstype=1):
    """One reception, then - after the application has done what it likes with the message object it was given
    (renumbered it, annotated it, detached the data set) - a second reception of the very same PDUs: what was
    received earlier belongs to the application and must not show in later messages."""
    n = receive_once(cf, fields, data, M, pc_id, groups, reception, ts_name, frag_source, real_ds, dstype, scramble=True)
    try:
        receive_once(cf, fields, data, M, pc_id, groups, reception, ts_name, frag_source, real_ds, dstype)
    except Violation as v:
        raise Violation(v.key + ':second-reception', v.what + ' [second reception of the same PDUs, after the application '
                        'modified the message object it received first]', v.case)
    return n


def scramble_message(msg):
    cs = msg.command_set
    for el in list(cs):
        try:
            if el.VR == 'US' and el.tag != (0x0000, 0x0100):
                el.value = (int(el.value) + 1001) & 0xFFFF
            elif el.VR == 'UI':
                el.value = '1.2.3.999'
        except Exception:
            pass
    cs.ErrorComment = 'seen by the application'
    try:
        msg.data_set = None
    except Exception:
        pass


def receive_once(cf, fields, data, M, pc_id, groups, reception, ts_name, frag_source='ref', real_ds=False, dstype=1,
                 scramble=False):
    """Feed one grouping of one message to a fresh DIMSEDecoder and check everything."""
    from pynetdicom2 import fsm, pdu, dsutils, asceprovider, dimsemessages, applicationentity
    import pynetdicom2
    from pydicom import uid
    case = {'cf': cf, 'fields': fields, 'data': data, 'M': M, 'pc_id': pc_id, 'groups': groups,
            'reception': reception, 'ts': ts_name, 'frag_source': frag_source, 'real_ds': real_ds, 'dstype': dstype}
    spec = {'cf': cf, 'fields': fields, 'data': data}
    exp = dg.expected_fields(spec)
    wire_fields = {el: v for el, v in exp.items()}
    if data and frag_source == 'ref':
        wire_fields[0x0800] = dstype
    cmd_bytes = refcmd.encode(wire_fields)
    if frag_source == 'ref':
        frags = dg.ref_fragments(cmd_bytes, data, M, pc_id)
    else:
        msg = dg.build_msg(spec)
        msg.set_length()
        frags = [{'id': v.context_id, 'data': bytes(v.data_value)}
                 for p in msg.encode(pc_id, M) for v in p.data_value_items]
        cmd_bytes = b''.join(f['data'][1:] for f in frags if f['data'][0] & 1)
    if groups is None:
        groups = [(i, i + 1) for i in range(len(frags))]
    if groups[-1][1] != len(frags):
        raise HarnessError('grouping does not cover the fragment list')
    sop_class = fields.get('AffectedSOPClassUID') or fields.get('RequestedSOPClassUID') or ''
    tsuid = uid.UID(TS[ts_name])
    ctxs = {pc_id: asceprovider.PContextDef(pc_id, uid.UID(sop_class), tsuid)}
    if (M + pc_id + len(frags)) % 3 != 0:
        # the same abstract syntax was accepted in a SECOND context with another transfer syntax (a requester that
        # proposes one context per transfer syntax): the message belongs to the context it arrives on
        other_id = pc_id + 2 if pc_id < 254 else pc_id - 2
        other_ts = uid.UID(TS['explicit'] if TS[ts_name] != TS['explicit'] else TS['big'])
        sibling = asceprovider.PContextDef(other_id, uid.UID(sop_class), other_ts)
        ctxs = {other_id: sibling, pc_id: ctxs[pc_id]} if (M + pc_id + len(frags)) % 3 == 1 else {pc_id: ctxs[pc_id], other_id: sibling}
    tmpdir = None
    file_backed = reception != 'memory'
    try:
        if reception == 'memory':
            store, cb = frozenset(), None
        elif reception == 'tempfile':
            # which classes go to a file is what the entity's public configuration says, whatever the order of the
            # calls that mention the class
            from .. import fakedul as fd
            from .c17 import alias
            from pynetdicom2 import sopclass
            ae = fd.make_ae('VERIF')
            order = (M + pc_id) % 4
            if order == 1:
                ae.add_scu(sopclass.storage_scu, [sop_class])
            if order == 3:
                ae.update_context_def_list([sop_class])
                ae.update_context_def_list([sop_class], store_in_file=True)
            else:
                ae.add_scp(alias(sopclass.storage_scp, [sop_class]))
            if order == 2:
                ae.add_scu(sopclass.storage_scu, [sop_class])
            store, cb = ae.store_in_file, ae.get_file
        elif reception == 'proxy':
            # the application's get_file returns an object that BEHAVES like a file (write / writelines / seek / tell /
            # read / close) without being an io class - a wrapper that counts bytes, say
            class Counting(object):
                def __init__(self):
                    self._fp = tempfile.TemporaryFile()
                    self.written = 0

                def write(self, data):
                    self.written += len(data)
                    return self._fp.write(data)

                def writelines(self, lines):
                    for line in lines:
                        self.write(line)

                def seek(self, *a):
                    return self._fp.seek(*a)

                def tell(self):
                    return self._fp.tell()

                def read(self, *a):
                    return self._fp.read(*a)

                def close(self):
                    return self._fp.close()

            def cb(context, command_set):
                fp = Counting()
                applicationentity.write_meta(fp, command_set, context.supported_ts)
                return fp, 0
            store = frozenset([sop_class])
        elif reception == 'spool':
            # an application-supplied get_file whose file does not start at 0: it writes a record header of its own
            # first and reports where the DICOM content begins; the file is handed over positioned there
            def cb(context, command_set):
                fp = tempfile.TemporaryFile()
                fp.write(b'SPOOL-RECORD-HEADER:' + b'#' * 57)
                start = fp.tell()
                applicationentity.write_meta(fp, command_set, context.supported_ts)
                return fp, start
            store = frozenset([sop_class])
        else:
            tmpdir = tempfile.mkdtemp(prefix='vf_c07_')
            ae = pynetdicom2.ClientStorageAE(tmpdir, 'VERIF')
            store, cb = frozenset([sop_class]), ae.get_file
        try:
            dec = fsm.DIMSEDecoder(ctxs, store, cb)
        except TypeError as exc:
            # (the reassembler this property is anchored in is not constructed as (contexts, file classes, callback)
            #  in this tree: the machinery cannot drive it - not a verdict about the property)
            raise HarnessError('fsm.DIMSEDecoder cannot be constructed as anchored: %r' % (exc,))
        last_needed = len(frags) - 1
        for gi, (a, b) in enumerate(groups):
            raw = refpdu.enc_pdu({'t': 4, 'r': 0, 'pdvs': frags[a:b]})
            try:
                p = pdu.PDataTfPDU.decode(raw)
                dec.process(p)
            except Exception as exc:
                raise Violation('C07:exception:%s' % lib_frame(exc),
                                'reassembly raised %r at PDU %d/%d' % (exc, gi + 1, len(groups)), case)
            complete_expected = b > last_needed
            if dec.receiving == complete_expected:
                when = 'early' if not dec.receiving else 'late'
                raise Violation('C07:completion-%s' % when,
                                'receiving=%r after PDU %d of %d (fragments %d..%d of %d)'
                                % (dec.receiving, gi + 1, len(groups), a, b - 1, len(frags)), case)
        msg = dec.msg
        want_cls = refcmd.CLASS_NAME[cf]
        if type(msg).__name__ != want_cls or type(msg) is not dimsemessages.MESSAGE_TYPE.get(cf):
            raise Violation('C07:message-class', 'command field %04XH reassembled as %s, expected %s'
                            % (cf, type(msg).__name__, want_cls), case)
        if dec.pc_id != pc_id:
            raise Violation('C07:pc-id', 'pc_id %r, sent on %d' % (dec.pc_id, pc_id), case)
        got_cmd = dsutils.encode(msg.command_set, True, True)
        gf, _ = refcmd.wellformed(got_cmd)
        wf, _ = refcmd.wellformed(cmd_bytes)
        for el in set(gf) | set(wf):
            if el == 0x0800 and gf.get(el) is not None and wf.get(el) is not None:
                # Command Data Set Type has two meanings only (0101H = no data set, anything else = data set
                # present); the library stores its own 'present' code, which is the same command set
                if (gf[el] == refcmd.NO_DATASET) == (wf[el] == refcmd.NO_DATASET):
                    continue
            if norm(gf.get(el)) != norm(wf.get(el)):
                raise Violation('C07:command-set', 'element (0000,%04X): got %r, sent %r'
                                % (el, gf.get(el), wf.get(el)), case)
        ds = msg.data_set
        uses_file = file_backed and bool(data) and bool(sop_class)
        if not data:
            if ds:
                raise Violation('C07:data-phantom', 'message without data set got data_set %r' % (ds,), case)
        elif not uses_file:
            if not isinstance(ds, bytes) or ds != data:
                raise Violation('C07:data-bytes', 'in-memory data set differs (%s vs %d bytes)'
                                % (len(ds) if isinstance(ds, bytes) else type(ds).__name__, len(data)), case)
        else:
            if isinstance(ds, bytes) or ds is None:
                raise Violation('C07:not-file', 'file-backed reception delivered %s' % type(ds).__name__, case)
            try:
                content = ds.read()
                if content[:128] != b'\0' * 128 or content[128:132] != b'DICM':
                    raise Violation('C07:file-preamble', 'file does not start with a Part-10 preamble', case)
                g, e, vr, ln, val = struct.unpack('<HH2sHI', content[132:144])
                if (g, e, vr, ln) != (2, 0, b'UL', 4):
                    raise Violation('C07:file-meta', 'file meta group does not start with (0002,0000) UL', case)
                body = content[144 + val:]
                if body != data:
                    raise Violation('C07:file-bytes', 'file carries %d data-set bytes, %d were transmitted%s'
                                    % (len(body), len(data), '' if len(body) != len(data) else ' (content differs)'),
                                    case)
                import pydicom
                ds.seek(0)
                meta = pydicom.filereader.read_file_meta_info(ds) if False else None
                ds.seek(0)
                f = pydicom.dcmread(io.BytesIO(content), stop_before_pixels=not real_ds, force=False) \
                    if real_ds else pydicom.dcmread(io.BytesIO(content[:144 + val]), force=False)
                fm = f.file_meta
                if str(fm.TransferSyntaxUID) != TS[ts_name]:
                    raise Violation('C07:file-ts', 'file meta transfer syntax %s, context has %s'
                                    % (fm.TransferSyntaxUID, TS[ts_name]), case)
                if str(fm.MediaStorageSOPClassUID) != fields.get('AffectedSOPClassUID') or \
                        str(fm.MediaStorageSOPInstanceUID) != fields.get('AffectedSOPInstanceUID'):
                    raise Violation('C07:file-uids', 'file meta SOP class/instance differ from the command', case)
                if real_ds:
                    if f.PatientName != 'Test^Reassembly' or bytes(f.PixelData) != \
                            _pixel_of(data, ts_name):
                        raise Violation('C07:file-dataset', 'data set read back from the file differs', case)
            finally:
                try:
                    ds.close()
                except Exception:
                    pass
        if scramble:
            scramble_message(msg)
        return len(frags)
    finally:
        if tmpdir:
            shutil.rmtree(tmpdir, ignore_errors=True)


def _pixel_of(data, ts_name):
    import pydicom
    ds = pydicom.filereader.read_dataset(io.BytesIO(data), ts_name == 'implicit', ts_name != 'big')
    return bytes(ds.PixelData)


def store_fields(i=0):
    return {'AffectedSOPClassUID': SOP, 'MessageID': (i * 7 + 1) & 0xFFFF, 'Priority': 0,
            'AffectedSOPInstanceUID': '1.2.826.0.1.3680043.8.498.%d' % (i + 1),
            'MoveOriginatorApplicationEntityTitle': 'MOVER', 'MoveOriginatorMessageID': i & 0xFFFF}


def nontrivial(nfrag, groups):
    return nfrag >= 3 and groups is not None and 1 < len(groups) < nfrag


def run_exhaustive(ctx, job):
    """All compositions of short fragment lists."""
    quiet_warnings()
    for idx in job['indices']:
        cf = 0x0001 if idx % 4 == 1 else dg.ALL_CF[idx % len(dg.ALL_CF)]
        has_data = idx % 3 != 0 or idx % 4 == 1
        cmd_len = len(refcmd.encode(dg.expected_fields({'cf': cf, 'fields': default_fields(cf, idx % 5),
                                                        'data': b'x' if has_data else None})))
        # choose M so that command + data make at most `maxfrag` fragments
        ncmd = 1 + idx % 4
        M = 6 + -(-cmd_len // ncmd)
        f = M - 6
        ndat = (idx // 4) % 5 if has_data else 0
        L = 0 if not ndat else (ndat - 1) * f + (1, f, f - 1)[idx % 3] if f > 1 else ndat
        data = dg.patterned(L, idx) if L else None
        fields = default_fields(cf, idx % 5)
        reception, ts_name = 'memory', ('implicit', 'explicit', 'big')[idx % 3]
        if cf == 0x0001 and data:
            fields = store_fields(idx)
            reception = ('tempfile', 'directory', 'memory', 'spool', 'proxy')[(idx // 4) % 5]
        nfrag = len(dg.ref_fragments(refcmd.encode(dg.expected_fields({'cf': cf, 'fields': fields, 'data': data})),
                                     data, M, 1))
        if nfrag > job['maxfrag']:
            ctx.exclude('fragment list longer than exhaustive bound')
            continue
        for groups in compositions(nfrag):
            src = 'lib' if (idx + len(groups)) % 4 == 0 else 'ref'
            try:
                dstype = DSTYPES[(idx // 4) % len(DSTYPES)]
                run_case(cf, fields, data, M, PCIDS[idx % len(PCIDS)], groups, reception, ts_name, src, dstype=dstype)
            except Violation as v:
                ctx.fail(v.key, v.what, v.case)
            ctx.case(('ex', cf, M, L, groups, reception), nontrivial(nfrag, groups),
                     labels=['exhaustive', 'cf=%04X' % cf, 'recv=' + reception, 'nfrag=%d' % nfrag, 'frags=' + src] +
                     (['dstype=%04X' % dstype] if data and src == 'ref' else []),
                     sample={'cf': cf, 'M': M, 'L': L, 'groups': groups, 'reception': reception})


def run_real(ctx):
    """Genuine data sets in each transfer syntax through file-backed reception, a few groupings."""
    for i, ts_name in enumerate(('implicit', 'explicit', 'big')):
        for reception in ('tempfile', 'directory', 'memory'):
            data = real_dataset_bytes(ts_name, 5 + i)
            M = 46
            fields = store_fields(i)
            n = len(dg.ref_fragments(refcmd.encode(dg.expected_fields({'cf': 1, 'fields': fields, 'data': data})),
                                     data, M, 3))
            for groups in (None, [(0, n)], [(0, 2), (2, n - 1), (n - 1, n)], [(0, n - 1), (n - 1, n)]):
                try:
                    run_case(1, fields, data, M, 3, groups, reception, ts_name, 'ref', real_ds=True)
                except Violation as v:
                    ctx.fail(v.key, v.what, v.case)
                ctx.case(('real', ts_name, reception, groups), nontrivial(n, groups),
                         labels=['real-dataset', 'ts=' + ts_name, 'recv=' + reception])


def run_tiny(ctx):
    """Smallest fragment sizes (M = 7..12) x every data length up to 3 fragments + 1, C-STORE, all three
    receptions, a few groupings (the fragment lists are long, so groupings are sampled here)."""
    for M in range(7, 13):
        f = M - 6
        for L in range(1, 3 * f + 2):
            fields = store_fields(M * 100 + L)
            data = dg.patterned(L, M)
            n = len(dg.ref_fragments(refcmd.encode(dg.expected_fields({'cf': 1, 'fields': fields, 'data': data})),
                                     data, M, 5))
            for ri, reception in enumerate(('memory', 'tempfile', 'directory', 'spool', 'proxy')):
                for groups in (None, [(0, n)], [(0, n - 1), (n - 1, n)], [(0, n // 2), (n // 2, n)],
                               [(0, 1), (1, n - 2), (n - 2, n)]):
                    try:
                        run_case(1, fields, data, M, 5, groups, reception,
                                 (('implicit', 'explicit', 'big') + tuple(OPAQUE_TS))[(ri + L + M) % 8],
                                 'lib' if L % 2 else 'ref', dstype=DSTYPES[(L // 2 + ri) % len(DSTYPES)])
                    except Violation as v:
                        ctx.fail(v.key, v.what, v.case)
                    ctx.case(('tiny', M, L, reception, groups), nontrivial(n, groups),
                             labels=['tiny-fragments', 'recv=' + reception])


def run_sequences(ctx, thorough=False):
    """Several messages in a row on ONE association, delivered through the real provider loop and state machine
    (vf/simnet.py, acceptor in Sta6): the reassembly state must not leak from one message into the next.  Each
    message is file-backed (C-STORE on a store_in_file class), in-memory with data (C-FIND-RQ), or without data
    set (C-ECHO-RQ); PDV groupings: one per PDU / everything in one PDU / pairs."""
    import itertools
    from .. import simnet, convs
    from pynetdicom2 import applicationentity, asceprovider
    from pydicom import uid
    FIND = '1.2.840.10008.5.1.4.1.2.1.1'
    kinds = ('file', 'mem', 'none')
    # (the storage class was accepted in three contexts, one per transfer syntax: messages arrive on the middle one)
    ctxs = {7: asceprovider.PContextDef(7, uid.UID(SOP), uid.UID(TS['explicit'])),
            1: asceprovider.PContextDef(1, uid.UID(convs.VERIF_UID), uid.UID(convs.IMPLICIT)),
            3: asceprovider.PContextDef(3, uid.UID(SOP), uid.UID(convs.IMPLICIT)),
            5: asceprovider.PContextDef(5, uid.UID(FIND), uid.UID(convs.IMPLICIT)),
            9: asceprovider.PContextDef(9, uid.UID(SOP), uid.UID(TS['big']))}
    lengths = (2, 3, 4) if thorough else (2, 3)
    for n in lengths:
        for combo in itertools.product(kinds, repeat=n):
            for gmode in (0, 1, 2):
                msgs = []
                script = [{'k': 'seg', 'data': refpdu.enc_pdu(convs.RQ_SPEC), 'eager': False},
                          {'k': 'user', 'prim': convs.user_prim({'pdu': convs.AC_SPEC})}]
                for i, kind in enumerate(combo):
                    if kind == 'file':
                        fields = {0x0002: SOP, 0x0100: 0x0001, 0x0110: i + 1, 0x0700: 0, 0x0800: 1,
                                  0x1000: '1.2.826.0.1.3680043.9.7.%d' % (i + 1)}
                        data, pc = dg.patterned(150 + 37 * i, i), 3
                    elif kind == 'mem':
                        fields = {0x0002: FIND, 0x0100: 0x0020, 0x0110: i + 1, 0x0700: 0, 0x0800: 1}
                        data, pc = dg.patterned(90 + 11 * i, 7 + i), 5
                    else:
                        fields = {0x0002: convs.VERIF_UID, 0x0100: 0x0030, 0x0110: i + 1, 0x0800: 0x0101}
                        data, pc = None, 1
                    frags = dg.ref_fragments(refcmd.encode(fields), data, 64, pc)
                    if gmode == 0:
                        groups = [[f] for f in frags]
                    elif gmode == 1:
                        groups = [frags]
                    else:
                        groups = [frags[j:j + 2] for j in range(0, len(frags), 2)]
                    for grp in groups:
                        script.append({'k': 'seg', 'data': refpdu.enc_pdu({'t': 4, 'r': 0, 'pdvs': grp}), 'eager': gmode == 2})
                    msgs.append((kind, fields, data, pc))
                case = {'sequence': list(combo), 'grouping': gmode}
                ae = applicationentity.ClientAE('VERIF')
                sim = simnet.run_scenario('acceptor', script, store_in_file=frozenset([SOP]), get_file_cb=ae.get_file,
                                          accepted_contexts=ctxs)
                ctx.case(('seq', combo, gmode), True, labels=['sequence', 'len=%d' % n, 'grouping=%d' % gmode],
                         sample={'sequence': combo, 'grouping': gmode})
                if sim.outcome[0] != 'returned':
                    ctx.fail('C07:sequence:loop-%s' % sim.outcome[0], 'sequence %r: provider loop %r' % (combo, sim.outcome), case)
                    continue
                inds = [i for i in sim.indications() if isinstance(i, tuple)]
                others = [getattr(i, 'pdu_type', None) for i in sim.indications() if not isinstance(i, tuple)]
                if len(inds) != len(msgs) or others != [1]:
                    ctx.fail('C07:sequence:delivery', 'sequence %r (grouping %d): %d of %d messages delivered, other '
                             'indications %r' % (combo, gmode, len(inds), len(msgs), others), case)
                    continue
                for i, ((msg, pc_id), (kind, fields, data, pc)) in enumerate(zip(inds, msgs)):
                    got = msg.data_set
                    if got is not None and not isinstance(got, bytes):
                        try:
                            content = got.read()
                            got.close()
                        except Exception as exc:
                            ctx.fail('C07:sequence:file', 'message %d of %r: file object unusable: %r' % (i + 1, combo, exc), case)
                            break
                        g_, e_, vr, ln, val = struct.unpack('<HH2sHI', content[132:144])
                        got = content[144 + val:]
                        was_file = True
                        import pydicom
                        meta_ts = str(pydicom.dcmread(io.BytesIO(content[:144 + val]), force=False).file_meta.TransferSyntaxUID)
                        if meta_ts != convs.IMPLICIT:
                            ctx.fail('C07:sequence:file-ts', 'message %d of %r arrived on context 3 (%s); the file it was received '
                                     'into says %s (the class was also accepted on contexts 7 and 9 with other syntaxes)'
                                     % (i + 1, combo, convs.IMPLICIT, meta_ts), case)
                            break
                    else:
                        was_file = False
                    if pc_id != pc or msg.command_field != fields[0x0100] or (got or None) != (data or None) or \
                            was_file != (kind == 'file'):
                        ctx.fail('C07:sequence:content', 'message %d of %r (grouping %d): context %r, command %04X, %s bytes '
                                 '(file-backed=%s); sent context %d, command %04X, %s bytes as %s'
                                 % (i + 1, combo, gmode, pc_id, msg.command_field or 0, len(got) if got else 0, was_file,
                                    pc, fields[0x0100], len(data) if data else 0, kind), case)
                        break


def run_long_association(ctx, total_bytes, msg_bytes=4 << 20, replaying=False):
    """ONE association that carries a great many ordinary messages (archives keep associations open for hours): more
    than total_bytes of P-DATA in all.  Every message is reassembled like the first one."""
    from .. import simnet, convs
    from pynetdicom2 import asceprovider
    from pydicom import uid
    FIND = '1.2.840.10008.5.1.4.1.2.1.1'
    ctxs = {5: asceprovider.PContextDef(5, uid.UID(FIND), uid.UID(convs.IMPLICIT))}
    fields = {0x0002: FIND, 0x0100: 0x0020, 0x0110: 77, 0x0700: 0, 0x0800: 1}
    data = dg.patterned(msg_bytes - 13, 3)
    pdus = [refpdu.enc_pdu({'t': 4, 'r': 0, 'pdvs': [f]}) for f in dg.ref_fragments(refcmd.encode(fields), data, 65536, 5)]
    n_msgs = total_bytes // sum(len(p) for p in pdus) + 2
    case = {'long_association': True, 'total_bytes': total_bytes, 'msg_bytes': msg_bytes}
    state = {'seen': 0, 'bad': None}

    def fetch(sim):
        # the local user fetches what has been indicated so far (and drops it)
        q = sim.provider.to_service_user
        while not q.empty():
            item = q.get(False)
            if not isinstance(item, tuple):
                continue
            state['seen'] += 1
            msg, pc_id = item
            if state['bad'] is None and (pc_id != 5 or msg.data_set != data or msg.message_id != 77):
                state['bad'] = 'message %d of the association: context %r, message id %r, %d data bytes (sent: 5, 77, %d)' % (
                    state['seen'], pc_id, msg.message_id, len(msg.data_set or b''), len(data))
        sim.log[:] = [e for e in sim.log if e[0] != 'ind']
    script = [{'k': 'seg', 'data': refpdu.enc_pdu(convs.RQ_SPEC), 'eager': False},
              {'k': 'user', 'prim': convs.user_prim({'pdu': convs.AC_SPEC})}]
    for _ in range(n_msgs):
        script += [{'k': 'seg', 'data': p, 'eager': True} for p in pdus]
        script.append({'k': 'call', 'fn': fetch})
    script.append({'k': 'close', 'eager': False})
    ctx.case(('long-association', total_bytes), True, labels=['long-association', 'GiB=%.1f' % (total_bytes / float(1 << 30))],
             sample={'messages': n_msgs, 'bytes each': msg_bytes, 'total': n_msgs * msg_bytes})
    sim = simnet.run_scenario('acceptor', script, accepted_contexts=ctxs, budget=60 * len(script) + 10000)
    fetch(sim)
    wrote = [p['t'] for p in refpdu.parse_stream(sim.wire())]
    if sim.outcome[0] != 'returned' or state['bad'] or state['seen'] != n_msgs or wrote != [2]:
        what = ('one association carrying %d messages of %d bytes (%.2f GiB in all): %d delivered%s; provider wrote PDU types '
                '%r; loop %r' % (n_msgs, msg_bytes, n_msgs * msg_bytes / float(1 << 30), state['seen'],
                                 '; ' + state['bad'] if state['bad'] else '', wrote, sim.outcome[:2]))
        if replaying:
            raise Violation('C07:long-association', what, case)
        ctx.fail('C07:long-association', what, case)


def shard_long(ctx, job):
    quiet_warnings()
    run_long_association(ctx, job['total'])


@st.composite
def random_case(draw):
    cf = draw(st.sampled_from(dg.ALL_CF + [1] * 20))
    fields = draw(dg.fields_for(cf, all_set=(cf == 1)))
    data = draw(dg.data_bytes(600))
    M = draw(st.one_of(st.integers(7, 120), st.sampled_from([7, 8, 9, 10, 16, 512, 65536])))
    pc_id = draw(st.integers(1, 255))
    cmd = refcmd.encode(dg.expected_fields({'cf': cf, 'fields': fields, 'data': data}))
    n = len(dg.ref_fragments(cmd, data, M, pc_id))
    cuts = sorted(set(draw(st.lists(st.integers(1, max(1, n - 1)), max_size=min(n - 1, 12))))) if n > 1 else []
    bounds = [0] + [c for c in cuts if 0 < c < n] + [n]
    groups = [(a, b) for a, b in zip(bounds, bounds[1:])]
    reception = draw(st.sampled_from(['memory', 'tempfile', 'directory', 'spool', 'proxy'])) if cf == 1 else 'memory'
    ts_name = draw(st.sampled_from(['implicit', 'explicit', 'big'] + OPAQUE_TS))
    src = draw(st.sampled_from(['ref', 'ref', 'lib']))
    dstype = draw(st.one_of(st.sampled_from(DSTYPES), st.integers(0, 0xFFFF).filter(lambda v: v != 0x0101)))
    return cf, fields, data, M, pc_id, groups, reception, ts_name, src, dstype, n


def run_random(ctx, n):
    def fn(value):
        cf, fields, data, M, pc_id, groups, reception, ts_name, src, dstype, nfrag = value
        ctx.case(('rnd',) + tuple(value[:10]), nontrivial(nfrag, groups),
                 labels=['random', 'recv=' + reception, 'frags=' + src] +
                 (['dstype=' + ('0001' if dstype == 1 else '0000' if dstype == 0 else 'other')] if data and src == 'ref' else []),
                 sample={'cf': cf, 'M': M, 'L': len(data or b''), 'groups': groups, 'reception': reception})
        run_case(cf, fields, data, M, pc_id, groups, reception, ts_name, src, dstype=dstype)
    hyp_search(ctx, random_case(), fn, n, name='C07-random')


def shard_random(ctx, job):
    quiet_warnings()
    run_random(ctx, job['n'])


def run(ctx):
    quiet_warnings()
    try:
        refcmd.self_test()
        refpdu.self_test()
    except (refcmd.CmdError, refpdu.RefError) as exc:
        raise HarnessError('reference self-test: %s' % exc)
    ctx.rule = ('messages of all 23 command fields, command sets and fragments produced by the reference '
                'encoder (a quarter by the library), every composition of the fragment list into P-DATA-TF PDUs '
                'for lists up to the bound (2^(n-1) groupings each), Hypothesis-drawn groupings for longer lists; '
                'in-memory, temp-file, directory-backed, spool-file (application get_file reporting a non-zero start) and file-proxy (an object that behaves like a file without being an io class) reception; Command Data Set Type of data-bearing messages drawn from {0001H, 0000H, 0102H, FFFFH, 0100H, any value but 0101H}; genuine data sets in 3 transfer syntaxes; sequences of 2-3 (thorough 4) messages of mixed kind on one '
                'association through the real provider loop; one association carrying 1.1 GiB (thorough: 4.5 GiB) of ordinary 4 MiB messages; '
                'non-trivial = >=3 fragments and a grouping that is neither all-singletons nor one block; '
                'distinct by (message, M, L, grouping, reception)')
    ctx.assumptions = ['fragments of one message only per PDU sequence (statement scope)',
                       'file-backed reception applies to messages that carry Affected SOP Class/Instance UIDs']
    maxfrag = 14 if ctx.thorough else 9
    total = 23 * (36 if ctx.thorough else 9)
    idx = list(range(total))
    # (the long association runs beside the exhaustive part: 1.1 GiB in the quick tier, 2^32 bytes and more in the thorough one)
    parallel(ctx, shard_long, [{'total': (9 << 29) if ctx.thorough else (1 << 30) + (1 << 26)}] if not ctx.thorough
             else [{'total': 9 << 29}, {'total': (1 << 31) + (1 << 26)}], procs=2)
    # the parts that drive the reassembler directly (its constructor is an internal interface): if that interface is
    # not there in this tree they cannot run, the parts that go through the provider still can - and if those find
    # nothing the run is reported as a harness error (exit 2), not as 'held'
    skipped = []
    for part in (lambda: parallel(ctx, run_exhaustive, [{'indices': idx[i::16], 'maxfrag': maxfrag} for i in range(16)]),
                 lambda: run_real(ctx), lambda: run_tiny(ctx),
                 lambda: (parallel(ctx, shard_random, [{'n': 5000} for _ in range(16)]) if ctx.thorough
                          else run_random(ctx, 500))):
        try:
            part()
        except HarnessError as exc:
            skipped.append(exc)
    run_sequences(ctx, ctx.thorough)
    if skipped and not ctx.failures:
        raise skipped[0]


def replay(case):
    quiet_warnings()
    if case.get('long_association'):
        from ..common import Ctx
        run_long_association(Ctx('C07', 'quick', 1), case['total_bytes'], case['msg_bytes'], replaying=True)
        return
    if 'sequence' in case:
        from ..common import Ctx
        sub = Ctx('C07', 'thorough', 1)
        run_sequences(sub, True)
        for key, ent in sorted(sub.failures.items()):
            raise Violation(key, ent['what'], ent['case'])
        return
    groups = [tuple(g) for g in case['groups']] if case['groups'] else None
    run_case(case['cf'], case['fields'], case['data'], case['M'], case['pc_id'], groups,
             case['reception'], case['ts'], case.get('frag_source', 'ref'), case.get('real_ds', False),
             case.get('dstype', 1))
