"""Engine F: executable PS3.8 section 9.2 upper-layer protocol machine (Table 9-10 and the action
definitions of Tables 9-6 .. 9-9), transcribed from the standard - not from pynetdicom2.

States 1..13, events 1..19.  TABLE[(event, state)] = (action, next_state); next_state None for
AR-8, whose successor depends on the role.  ACTIONS[action] describes abstract effects:
  wire   : None | PDU kind the action puts on the wire ('user' = the primitive the local user
           passed; 'abort-su' = A-ABORT with service-user source (0); 'abort-sp' = A-ABORT with
           service-provider source (2); 'abort' = A-ABORT, source unspecified; 'release-rq',
           'release-rp')
  ind    : None | 'pdu' (the received PDU is handed to the user as indication/confirmation)
           | 'p-abort' (A-P-ABORT indication) | 'data' (P-DATA indication)
  close  : transport connection closed by the action
  artim  : 'start' | 'stop' | 'restart' | None
"""
from __future__ import annotations

from . import refcmd

ARTIM_SECONDS = 10

EVENTS = {
    1: 'A-ASSOCIATE request', 2: 'transport connect confirm', 3: 'A-ASSOCIATE-AC PDU',
    4: 'A-ASSOCIATE-RJ PDU', 5: 'transport connection indication', 6: 'A-ASSOCIATE-RQ PDU',
    7: 'A-ASSOCIATE response (accept)', 8: 'A-ASSOCIATE response (reject)', 9: 'P-DATA request',
    10: 'P-DATA-TF PDU', 11: 'A-RELEASE request', 12: 'A-RELEASE-RQ PDU', 13: 'A-RELEASE-RP PDU',
    14: 'A-RELEASE response', 15: 'A-ABORT request', 16: 'A-ABORT PDU',
    17: 'transport connection closed', 18: 'ARTIM timer expired', 19: 'unrecognized or invalid PDU'}

PDU_EVENT = {1: 6, 2: 3, 3: 4, 4: 10, 5: 12, 6: 13, 7: 16}      # received PDU type -> event
USER_EVENT = {1: 1, 2: 7, 3: 8, 4: 9, 5: 11, 6: 14, 7: 15}      # user primitive (as PDU type) -> event


def _row(evt, cells):
    return {(evt, sta): v for sta, v in cells.items()}


def _fill(evt, action_next, states):
    return {(evt, s): action_next for s in states}


TABLE = {}
TABLE.update({(1, 1): ('AE-1', 4)})
TABLE.update({(2, 4): ('AE-2', 5)})
# Evt3 A-ASSOCIATE-AC PDU
TABLE.update({(3, 2): ('AA-1', 13), (3, 3): ('AA-8', 13), (3, 5): ('AE-3', 6), (3, 13): ('AA-6', 13)})
TABLE.update(_fill(3, ('AA-8', 13), range(6, 13)))
# Evt4 A-ASSOCIATE-RJ PDU
TABLE.update({(4, 2): ('AA-1', 13), (4, 3): ('AA-8', 13), (4, 5): ('AE-4', 1), (4, 13): ('AA-6', 13)})
TABLE.update(_fill(4, ('AA-8', 13), range(6, 13)))
TABLE.update({(5, 1): ('AE-5', 2)})
# Evt6 A-ASSOCIATE-RQ PDU
TABLE.update({(6, 2): ('AE-6', 3), (6, 3): ('AA-8', 13), (6, 5): ('AA-8', 13), (6, 13): ('AA-7', 13)})
TABLE.update(_fill(6, ('AA-8', 13), range(6, 13)))
TABLE.update({(7, 3): ('AE-7', 6)})
TABLE.update({(8, 3): ('AE-8', 13)})
TABLE.update({(9, 6): ('DT-1', 6), (9, 8): ('AR-7', 8)})
# Evt10 P-DATA-TF PDU
TABLE.update({(10, 2): ('AA-1', 13), (10, 3): ('AA-8', 13), (10, 5): ('AA-8', 13), (10, 6): ('DT-2', 6),
              (10, 7): ('AR-6', 7), (10, 13): ('AA-6', 13)})
TABLE.update(_fill(10, ('AA-8', 13), range(8, 13)))
TABLE.update({(11, 6): ('AR-1', 7)})
# Evt12 A-RELEASE-RQ PDU
TABLE.update({(12, 2): ('AA-1', 13), (12, 3): ('AA-8', 13), (12, 5): ('AA-8', 13), (12, 6): ('AR-2', 8),
              (12, 7): ('AR-8', None), (12, 13): ('AA-6', 13)})
TABLE.update(_fill(12, ('AA-8', 13), range(8, 13)))
# Evt13 A-RELEASE-RP PDU
TABLE.update({(13, 2): ('AA-1', 13), (13, 3): ('AA-8', 13), (13, 5): ('AA-8', 13), (13, 6): ('AA-8', 13),
              (13, 7): ('AR-3', 1), (13, 8): ('AA-8', 13), (13, 9): ('AA-8', 13), (13, 10): ('AR-10', 12),
              (13, 11): ('AR-3', 1), (13, 12): ('AA-8', 13), (13, 13): ('AA-6', 13)})
TABLE.update({(14, 8): ('AR-4', 13), (14, 9): ('AR-9', 11), (14, 12): ('AR-4', 13)})
# Evt15 A-ABORT request
TABLE.update({(15, 3): ('AA-1', 13), (15, 4): ('AA-2', 1)})
TABLE.update(_fill(15, ('AA-1', 13), range(5, 13)))
# Evt16 A-ABORT PDU
TABLE.update({(16, 2): ('AA-2', 1), (16, 3): ('AA-3', 1), (16, 13): ('AA-2', 1)})
TABLE.update(_fill(16, ('AA-3', 1), range(5, 13)))
# Evt17 transport connection closed
TABLE.update({(17, 2): ('AA-5', 1), (17, 3): ('AA-4', 1), (17, 4): ('AA-4', 1), (17, 13): ('AR-5', 1)})
TABLE.update(_fill(17, ('AA-4', 1), range(5, 13)))
TABLE.update({(18, 2): ('AA-2', 1), (18, 13): ('AA-2', 1)})
# Evt19 unrecognized or invalid PDU
TABLE.update({(19, 2): ('AA-1', 13), (19, 3): ('AA-8', 13), (19, 13): ('AA-7', 13)})
TABLE.update(_fill(19, ('AA-8', 13), range(5, 13)))

if len(TABLE) != 123:
    raise RuntimeError('model table has %d cells' % len(TABLE))


def _a(wire=None, ind=None, close=False, artim=None, connect=False):
    return {'wire': wire, 'ind': ind, 'close': close, 'artim': artim, 'connect': connect}


ACTIONS = {
    'AE-1': _a(connect=True),
    'AE-2': _a(wire='user'),
    'AE-3': _a(ind='pdu'),
    'AE-4': _a(ind='pdu', close=True),
    'AE-5': _a(artim='start'),
    'AE-6': _a(ind='pdu', artim='stop'),          # "acceptable" branch; the provider never rejects
    'AE-7': _a(wire='user'),
    'AE-8': _a(wire='user', artim='start'),
    'DT-1': _a(wire='user'),
    'DT-2': _a(ind='data'),
    'AR-1': _a(wire='release-rq'),
    'AR-2': _a(ind='pdu'),
    'AR-3': _a(ind='pdu', close=True),
    'AR-4': _a(wire='release-rp', artim='start'),
    'AR-5': _a(artim='stop'),
    'AR-6': _a(ind='data'),
    'AR-7': _a(wire='user'),
    'AR-8': _a(ind='pdu'),
    'AR-9': _a(wire='release-rp'),
    'AR-10': _a(ind='pdu'),
    'AA-1': _a(wire='abort-su', artim='restart'),
    'AA-2': _a(close=True, artim='stop'),
    'AA-3': _a(ind='pdu', close=True),
    'AA-4': _a(ind='p-abort'),
    'AA-5': _a(artim='stop'),
    'AA-6': _a(),
    'AA-7': _a(wire='abort'),
    'AA-8': _a(wire='abort-sp', ind='p-abort', artim='start'),
}


def lookup(event, state, role):
    """(action name, next state) or None when Table 9-10 leaves the cell undefined."""
    ent = TABLE.get((event, state))
    if ent is None:
        return None
    action, nxt = ent
    if action == 'AR-8':
        nxt = 9 if role == 'requestor' else 10
    return action, nxt


class Reassembly(object):
    """Tracks when a sequence of PDVs completes a DIMSE message (PS3.8 Annex E, PS3.7 6.3.1)."""

    def __init__(self):
        self.reset()

    def reset(self):
        self.cmd = b''
        self.cmd_done = False
        self.data = b''
        self.data_done = False
        self.pc_id = None
        self.no_ds = None

    def feed(self, pdvs):
        """pdvs: list of {'id','data'} (data = control header + payload).  Returns a list of
        completed messages [(command fields dict, pc_id, data bytes or None)]."""
        done = []
        for v in pdvs:
            hdr, payload = v['data'][0], v['data'][1:]
            self.pc_id = v['id']
            if hdr & 1:
                self.cmd += payload
                if hdr & 2:
                    self.cmd_done = True
                    fields, _ = refcmd.wellformed(self.cmd)
                    self.fields = fields
                    self.no_ds = fields.get(0x0800) == refcmd.NO_DATASET
            else:
                self.data += payload
                if hdr & 2:
                    self.data_done = True
            if self.cmd_done and (self.no_ds or self.data_done):
                done.append((self.fields, self.pc_id, None if self.no_ds else self.data))
                self.reset()
        return done


class Model(object):
    """History-level model: protocol state, ARTIM deadline, transport open flag, reassembly."""

    def __init__(self, role, now=0.0):
        self.role = role
        self.state = 1
        self.artim = None            # start time or None
        self.transport = False       # transport connection open
        self.reasm = Reassembly()
        self.pending_out = []        # fragments of an outgoing message not yet transmitted
        self.assoc_indicated = False
        self.over = False            # an association existed/was attempted and has ended

    def artim_running(self):
        return self.artim is not None

    def expired(self, now):
        return self.artim is not None and now - self.artim > ARTIM_SECONDS

    def event(self, evt, now, prim=None):
        """Apply one Table 9-10 event.  Returns effects dict or None for an undefined cell.
        prim: for PDU events the parsed spec of the received PDU; for user events the spec of the
        user's primitive."""
        ent = lookup(evt, self.state, self.role)
        if ent is None:
            return None
        action, nxt = ent
        a = ACTIONS[action]
        eff = {'action': action, 'evt': evt, 'wire': [], 'ind': [], 'close': False, 'from': self.state, 'to': nxt}
        if a['connect']:
            self.transport = True
        if a['wire'] == 'user':
            eff['wire'].append(('pdu', prim))
        elif a['wire'] == 'release-rq':
            eff['wire'].append(('kind', 5))
        elif a['wire'] == 'release-rp':
            eff['wire'].append(('kind', 6))
        elif a['wire'] == 'abort-su':
            if evt == 15:
                eff['wire'].append(('pdu', prim))
            else:
                eff['wire'].append(('abort', 0))
        elif a['wire'] == 'abort-sp':
            eff['wire'].append(('abort', 2))
        elif a['wire'] == 'abort':
            eff['wire'].append(('abort', None))
        if not self.transport:
            eff['wire'] = []         # nothing can be written on a closed connection
        if a['ind'] == 'pdu':
            eff['ind'].append(('pdu', prim))
        elif a['ind'] == 'p-abort':
            if action != 'AA-8' or self.transport:
                eff['ind'].append(('p-abort',))
        elif a['ind'] == 'data':
            for fields, pc_id, data in self.reasm.feed(prim['pdvs']):
                eff['ind'].append(('dimse', fields, pc_id, data))
        if a['artim'] in ('start', 'restart'):
            if a['artim'] == 'restart' or self.artim is None or True:
                self.artim = now
        elif a['artim'] == 'stop':
            self.artim = None
        if a['close'] and self.transport:
            eff['close'] = True
            self.transport = False
        if evt == 17:
            self.transport = False
        if evt == 5:
            self.transport = True
        if nxt in (1, 13) and self.state not in (1,):
            self.reasm.reset()
        if action in ('AE-6',):
            self.assoc_indicated = True
        self.state = nxt
        return eff
