"""C01 - PDU encode/decode round-trip for every PDU, item and sub-item (DESIGN.md C01)."""
from __future__ import annotations

import re
import warnings

from hypothesis import strategies as st

from .. import pdugen as g
from ..common import Violation, hyp_search, parallel, lib_frame, digest, quiet_warnings

LEVEL = 'exploration'


def deep_diff(a, b, path=''):
    """First difference between two library objects (recursive __dict__), or None."""
    if isinstance(a, str) and isinstance(b, str):
        return None if str(a) == str(b) else '%s(%r != %r)' % (path, str(a)[:30], str(b)[:30])
    if isinstance(a, (bytes, bytearray)) and isinstance(b, (bytes, bytearray)):
        return None if bytes(a) == bytes(b) else '%s(bytes differ, len %d/%d)' % (path, len(a), len(b))
    if isinstance(a, (list, tuple)) and isinstance(b, (list, tuple)):
        for i, (x, y) in enumerate(zip(a, b)):
            d = deep_diff(x, y, '%s[%d]' % (path, i))
            if d:
                return d
        if len(a) != len(b):
            return '%s(len %d != %d)' % (path, len(a), len(b))
        return None
    if isinstance(a, (int, float)) or a is None or isinstance(b, (int, float)) or b is None:
        if type(a) is bool or type(b) is bool:
            return None if a is b else '%s(%r != %r)' % (path, a, b)
        return None if a == b else '%s(%r != %r)' % (path, a, b)
    if type(a) is not type(b):
        return '%s(type %s != %s)' % (path, type(a).__name__, type(b).__name__)
    if hasattr(a, '__dict__'):
        da, db = vars(a), vars(b)
        for k in sorted(set(da) | set(db)):
            if k not in da or k not in db:
                return '%s.%s(missing)' % (path, k)
            d = deep_diff(da[k], db[k], '%s.%s' % (path, k))
            if d:
                return d
        return None
    return None if a == b else '%s(%r != %r)' % (path, a, b)


def generalise(path):
    return re.sub(r'\(.*$', '', re.sub(r'\[\d+\]', '[]', path))


def culprit(spec, path):
    """Name the sub-item kind preceding the first differing user-information sub-item."""
    m = re.search(r'variable_items\[(\d+)\]\.user_data\[(\d+)\]', path)
    if not m or spec.get('t') not in (1, 2):
        return ''
    try:
        subs = spec['items'][int(m.group(1))]['subs']
        j = int(m.group(2))
        here = g.sub_kind(subs[j]) if j < len(subs) else 'end'
        return ':at=%s' % here
    except Exception:
        return ''


def roundtrip(spec):
    cls = g.pdu_class(spec['t'])
    name = cls.__name__
    case = {'kind': 'pdu', 'spec': spec}
    obj = g.build(spec)
    try:
        raw = obj.encode()
    except Exception as exc:
        raise Violation('C01:encode:%s:%s' % (name, lib_frame(exc)),
                        '%s.encode() raised %r' % (name, exc), case)
    try:
        back = cls.decode(raw)
    except Exception as exc:
        raise Violation('C01:decode:%s:%s' % (name, lib_frame(exc)),
                        '%s.decode(encode()) raised %r' % (name, exc), case)
    d = deep_diff(obj, back)
    if d:
        raise Violation('C01:fields:%s:%s%s' % (name, generalise(d), culprit(spec, d)),
                        '%s: decoded PDU differs from the encoded one at %s' % (name, d), case)
    # ... and with the PDU as it was BEFORE encode() was called on it (encoding is not supposed to edit its subject)
    d = deep_diff(g.build(spec), back)
    if d:
        raise Violation('C01:fields:%s:%s:encode-edited-its-subject' % (name, generalise(d)),
                        '%s: decoded PDU differs at %s from the PDU as it was built (encode() changed the object it encoded, '
                        'so comparing with that object afterwards shows nothing)' % (name, d), case)
    try:
        raw2 = back.encode()
    except Exception as exc:
        raise Violation('C01:reencode:%s:%s' % (name, lib_frame(exc)),
                        're-encoding the decoded %s raised %r' % (name, exc), case)
    if raw2 != raw:
        raise Violation('C01:reencode-bytes:%s' % name,
                        '%s: decode(b).encode() != b (%d vs %d bytes)' % (name, len(raw2), len(raw)),
                        case)
    # decode() is a function of the bytes: whatever the caller did to an object decoded earlier, decoding the
    # same bytes again yields the same PDU
    g.scramble(back)
    try:
        again = cls.decode(raw)
    except Exception as exc:
        raise Violation('C01:decode-again:%s:%s' % (name, lib_frame(exc)),
                        'second %s.decode() of the same bytes raised %r' % (name, exc), case)
    d = deep_diff(obj, again)
    if d:
        raise Violation('C01:decode-history:%s:%s' % (name, generalise(d)),
                        '%s: a second decode of the same bytes differs at %s after the first decoded object was '
                        'modified by its owner' % (name, d), case)
    return raw


def nontrivial(spec):
    t = spec['t']
    if t in (1, 2):
        return len(spec['items']) >= 1
    if t == 4:
        return len(spec['pdvs']) >= 1
    return any(v for k, v in spec.items() if k != 't')


def labels(spec):
    t = spec['t']
    out = ['pdu=%d' % t]
    if t in (1, 2):
        out.append('items=%d' % len(spec['items']))
        for i, it in enumerate(spec['items']):
            if it['t'] == 0x50:
                out.append('userinfo-last' if i == len(spec['items']) - 1 else 'userinfo-not-last')
                kinds = [g.sub_kind(s) for s in it['subs']]
                out.extend('sub=%s' % k for k in set(kinds))
                out.extend('adj=%s>%s' % (a, b) for a, b in zip(kinds, kinds[1:]))
                if any(ord(c) > 127 for s in it['subs'] for f in ('prim', 'sec', 'resp')
                       for c in s.get(f, '')):
                    out.append('non-ascii')
                if any(g._field_bytes(x) >= 32767 for x in it['subs']):
                    out.append('field>=32K')
    if t == 4:
        out.append('pdvs=%d' % len(spec['pdvs']))
        for v in spec['pdvs']:
            n = len(v['data'])
            out.append('payload=' + ('0' if n == 0 else '<=300' if n <= 300 else '>=64K'))
    return out


def wrap_subs(kind, subs):
    return {'t': kind, 'r1': 0, 'ver': 1, 'r2': 0, 'called': 'CALLED', 'calling': 'CALLING',
            'r3': [0] * 8,
            'items': [{'t': 0x10, 'r': 0, 'name': '1.2.840.10008.3.1.1.1'},
                      {'t': 0x50, 'r': 0, 'subs': list(subs)}]}


def run_adjacency(ctx, n):
    """Every ordered pair of sub-item kinds and every kind in last position, n value draws each
    (one small Hypothesis search per combination, so a failure shrinks in milliseconds)."""
    combos = [(a, b) for a in g.SUB_KINDS for b in g.SUB_KINDS] + [(a,) for a in g.SUB_KINDS]
    for combo in combos:
        strat = st.tuples(st.sampled_from([1, 2]), st.tuples(*[g.sub_item(k) for k in combo]))

        def fn(value):
            kind, subs = value
            subs = g._fit(list(subs))
            spec = wrap_subs(kind, subs)
            ctx.case(spec, True, labels=labels(spec) + ['adjacency-enum'],
                     sample={'adjacency': [g.sub_kind(s) for s in subs], 'spec': spec})
            roundtrip(spec)
        hyp_search(ctx, strat, fn, n, name='C01-adjacency', max_buckets=2)


def run_random(ctx, n, allow_big=True):
    def fn(spec):
        ctx.case(spec, nontrivial(spec), labels=labels(spec), sample=spec)
        roundtrip(spec)
    hyp_search(ctx, g.any_pdu(strict=False, free_order=True, allow_big=allow_big), fn, n,
               name='C01-random')


def shard(ctx, job):
    quiet_warnings()
    run_adjacency(ctx, job['adj'])
    run_random(ctx, job['n'])


def long_lived_spec(k):
    """The k-th A-ASSOCIATE-RQ / -AC of a long-lived process: names nobody in this process has used before, under
    the DICOM root and under private roots."""
    from .. import fakedul as fd
    root = '1.2.840.10008.' if k % 3 else '1.3.6.1.4.1.5962.'
    ctxs = [(2 * i + 1, '%s5.1.4.1.1.%d.%d' % (root, k, i), ['%s1.2.4.%d' % (root, 1000 + 7 * k + j) for j in range(2)])
            for i in range(2)]
    if k % 2:
        return fd.rq_spec(ctxs)
    return fd.ac_spec([(cid, 0, tss[0]) for cid, _, tss in ctxs], 16384)


def run_long_lived(n):
    """Codecs are functions of their input however long the process has lived: n PDUs with ~6 fresh names each are
    round-tripped, then the early ones again."""
    for k in list(range(n)) + list(range(min(n, 400))) + [n - 1]:
        spec = long_lived_spec(k)
        try:
            roundtrip(spec)
        except Violation as v:
            raise Violation(v.key + ':long-lived', v.what + ' [PDU %d of a process that has round-tripped %d PDUs with '
                            'fresh UIDs before]' % (k, n), {'kind': 'long-lived', 'n': n})


def run(ctx):
    quiet_warnings()
    n_long = 12000 if ctx.thorough else 2500
    ctx.case(('long-lived', n_long), True, labels=['long-lived-process'], sample={'pdus': n_long, 'fresh names': 6 * n_long})
    ctx.check(run_long_lived, n_long)
    ctx.rule = ('Hypothesis-generated PDU specs built through the public constructors (7 PDU '
                'types, variable items in any order, 9 user-information sub-item kinds, boundary '
                'integers, payloads up to 70000 bytes) plus an enumeration of all 81 ordered '
                'sub-item adjacencies and 9 last-position cases with 3 value draws each; '
                'non-trivial = PDU carries >=1 nested item/PDV, or a fixed-format PDU has a '
                'non-default field; distinct by SHA-1 of the spec; plus one long-lived-process run: 2500 (quick) / 12000 association '
                'PDUs with ~6 never-seen UIDs each round-tripped in one process, then the early ones again')
    ctx.assumptions = ['AE titles: 0-16 printable ISO-646 chars without backslash/NUL',
                       'UIDs: 0-64 chars of [0-9.]; user-information item total < 64 KiB',
                       'fixed-length sub-items 51H/53H built with their standard item_length 4',
                       'UID compared as str; reserved3 passed as tuple']
    if ctx.thorough:
        parallel(ctx, shard, [{'adj': 10, 'n': 15000} for _ in range(16)])
    else:
        run_adjacency(ctx, 3)
        run_random(ctx, 2000)


def replay(case):
    quiet_warnings()
    if case.get('kind') == 'long-lived':
        run_long_lived(case['n'])
        return
    roundtrip(case['spec'])
