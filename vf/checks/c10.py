"""C10 - the negotiated maximum PDU length is honoured in both directions, including 0 (no limit)."""
from __future__ import annotations

import warnings

from hypothesis import strategies as st

from .. import dimsegen as dg, fakedul as fd, refcmd
from ..common import Violation, HarnessError, hyp_search, parallel, lib_frame, quiet_warnings

LEVEL = 'exploration'

GRID = [0, 7, 8, 100, 127, 128, 1024, 16384, 65535, 65536, 2 ** 31, 2 ** 32 - 1]
SOP = '1.2.826.0.1.3680043.9.77'
TS = '1.2.840.10008.1.2'
CAP = 300000


def data_lengths(P, L=0):
    # keep the number of fragments bounded when the own (tightening) limit is tiny
    small = min([x for x in (L, P) if x] or [0])
    cap = min(CAP, 3000 * (small - 6)) if small else CAP
    if P == 0:
        return [None, 1, 1000, cap, -500]
    f = P - 6
    out = [None]
    if 100 <= f <= 70000:
        # (negative: no data set, but a command set with that many Offending Element tags - longer than one fragment)
        out.append(-(f // 4 + 50))
    for n in (1, f - 1, f, f + 1, 3 * f + 1):
        if n >= 1:
            out.append(min(n, cap))
    seen, res = set(), []
    for n in out:
        if n not in seen:
            seen.add(n)
            res.append(n)
    return res


def check_announced(role, L, A, case):
    if L != 0 and (A == 0 or A > L):
        raise Violation('C10:announced:%s' % role,
                        '%s configured with maximum %d announces %d (must be its own limit or less, and not '
                        '"unlimited")' % (role, L, A), case)


def check_sent(role, rec, P, data, case, tags=0):
    if rec['kind'] != 'msg' or not rec['ok']:
        raise Violation('C10:not-a-message:%s' % role, 'send produced %r' % (rec.get('spec'),), case)
    heads = [h for _, h, _ in rec['frags']]
    if not any(h is not None and h & 1 for h in heads):
        raise Violation('C10:nothing-sent:%s' % role,
                        '%s (own max %d, peer announced %d): message with %s data bytes produced %d P-DATA-TF PDUs, '
                        'no command fragment' % (role, case['L'], P, len(data) if data else 0, len(rec['raws'])), case)
    if P != 0:
        too = [n for n in rec['pdu_lengths'] if n > P]
        if too:
            raise Violation('C10:too-long:%s' % role, '%s sent a P-DATA-TF of length %d, peer announced %d'
                            % (role, max(too), P), case)
    if (rec['data'] or b'') != (data or b''):
        raise Violation('C10:data-lost:%s' % role, '%s: %d data bytes sent, %d given'
                        % (role, len(rec['data'] or b''), len(data or b'')), case)
    if rec['defects'] and rec['defects'][0].startswith('unparseable'):
        raise Violation('C10:command-broken:%s' % role, rec['defects'][0], case)
    if rec['fields'].get(0x0100) != 0x8020:
        raise Violation('C10:command-broken:%s' % role, 'command field %r' % (rec['fields'].get(0x0100),), case)
    if tags:
        got = rec['fields'].get(0x0901)
        if isinstance(got, int):
            got = [got]
        if list(got or ()) != big_tags(tags):
            raise Violation('C10:command-broken:%s' % role, 'command set with %d Offending Element tags: %s arrived'
                            % (tags, 'none' if got is None else len(got)), case)


def big_tags(n):
    return [0x00100010 + 0x10000 * (k % 60000) for k in range(n)]


def payload(n, salt):
    """Data-set bytes for one entry of `lengths` (None and negative entries: no data set)."""
    return None if n is None or n < 0 else dg.patterned(n, salt)


def make_msg(data, as_file=False, tags=0):
    import io
    from pynetdicom2 import dimsemessages
    msg = dimsemessages.CFindRSPMessage()
    msg.sop_class_uid = SOP
    msg.message_id_being_responded_to = 3
    msg.status = 0xFF00
    if tags:
        # a failure response naming the elements in error: the only unbounded part of a command set
        msg.status = 0xA900
        msg.command_set.OffendingElement = big_tags(tags)
    if as_file and data:
        if len(data) % 2:
            msg.data_set = io.BytesIO(b'\x5A' * 192 + data)      # positioned behind a header of its own
            msg.data_set.seek(192)
        elif len(data) % 4 == 2:
            # a raw stream whose read(n) may deliver fewer than n bytes although more follow
            from ..dimsegen import ShortReads
            msg.data_set = ShortReads(data)
        else:
            msg.data_set = io.BytesIO(data)
    else:
        msg.data_set = data
    return msg


def reorder_subs(spec, order):
    """PS3.8 Annex D does not order the user-information sub-items: Maximum Length first (what most toolkits write),
    behind Implementation Class UID / Version Name, or in the middle."""
    extra = [{'t': 0x52, 'r': 0, 'uid': '1.2.826.0.1.3680043.9.77.1'}, {'t': 0x55, 'r': 0, 'name': 'PEER_1'}]
    items = []
    for it in spec['items']:
        if it['t'] == 0x50:
            mx = [s_ for s_ in it['subs'] if s_['t'] == 0x51]
            rest = [s_ for s_ in it['subs'] if s_['t'] != 0x51]
            subs = {0: mx + extra + rest, 1: extra + rest + mx, 2: extra[:1] + mx + extra[1:] + rest}[order]
            it = dict(it, subs=subs)
        items.append(it)
    return dict(spec, items=items)


def reserved_fill(L, P):
    """Every reserved byte of the peer's PDU (sub-items included) zero, or not: receivers do not test them."""
    return (0, 0xA5A5, 0, 0x0101)[(L % 11 + P % 3) % 4]


def sub_order(L, P):
    return (L % 7 + P % 5 + (L > P)) % 3


def run_acceptor_case(L, P, lengths, via_hook=False, entity='AE'):
    """via_hook: the entity is configured with 65536 and its on_association_request hook gives this association
    its own limit L (a per-peer limit, set on the association object the hook receives)."""
    case = {'role': 'acceptor', 'L': L, 'P': P, 'lengths': lengths, 'via_hook': via_hook, 'entity': entity}
    datas = [payload(n, 1) for n in lengths]
    sent_records = []

    def service(asce, ctx, msg):
        i = msg.message_id
        before = len(asce.dul.sent)
        asce.send(make_msg(datas[i], as_file=i % 2 == 1, tags=-min(lengths[i] or 0, 0)), ctx.id)
        sent_records.append((i, asce.dul.sent[before:]))
    service.sop_classes = [SOP]
    if via_hook:
        from pynetdicom2 import applicationentity

        class PerPeer(applicationentity.AE):
            def on_association_request(self, asce, assoc):
                asce.max_pdu_length = L
        ae = fd.make_ae('SRV', [TS], 65536, cls=PerPeer)
    elif entity == 'StorageAE':
        # the directory-backed storage entity the package offers (same negotiation, its own constructor)
        import pynetdicom2
        import tempfile
        tmpdir = tempfile.mkdtemp(prefix='vf_c10_')
        ae = pynetdicom2.StorageAE(tmpdir, 'SRV', 0, [TS], L)
        ae.timeout = 0.01
    else:
        ae = fd.make_ae('SRV', [TS], L)
    try:
        ae.add_scp(service)

        def plan(dul):
            dul.push_pdu(reorder_subs(fd.rq_spec([(1, SOP, [TS])], P, reserved=reserved_fill(L, P)), sub_order(L, P)))
            for i in range(len(datas)):
                dul.push_msg({0x0002: SOP, 0x0100: 0x0020, 0x0110: i, 0x0700: 0}, b'\x08\x00\x52\x00\x06\x00\x00\x00STUDY ', 1)
        acc, fac, exc = fd.run_acceptor(ae, [plan])
    finally:
        ae.server_close()
        if entity == 'StorageAE':
            import shutil
            shutil.rmtree(tmpdir, ignore_errors=True)
    if exc is not None:
        raise Violation('C10:exception:%s' % lib_frame(exc), 'acceptor (max %d, peer %d) raised %r' % (L, P, exc), case)
    dul = fac.instances[0]
    acs = dul.sent_pdus(2)
    if len(acs) != 1:
        raise Violation('C10:no-ac', 'no A-ASSOCIATE-AC', case)
    subs = [s for it in acs[0]['spec']['items'] if it['t'] == 0x50 for s in it['subs'] if s['t'] == 0x51]
    if len(subs) != 1:
        raise Violation('C10:no-maxlen:acceptor', 'A-ASSOCIATE-AC carries %d Maximum Length sub-items' % len(subs), case)
    check_announced('acceptor', L, subs[0]['max'], case)
    if len(sent_records) != len(datas):
        raise Violation('C10:service-not-run', '%d of %d requests reached the service' % (len(sent_records), len(datas)), case)
    for i, recs in sent_records:
        if len(recs) != 1:
            raise Violation('C10:nothing-sent:acceptor', 'send queued %d primitives' % len(recs), case)
        check_sent('acceptor', recs[0], P, datas[i], case, tags=-min(lengths[i] or 0, 0))
    return subs[0]['max']


def tiny_limit_case(P, as_file):
    """A peer announcing 1..6 (a P-DATA-TF of that length cannot carry a single payload byte): whatever the library
    does about such an association, the first clause still binds - it never sends a P-DATA-TF longer than that."""
    case = {'role': 'tiny-limit', 'P': P, 'as_file': as_file}
    data = dg.patterned(4000, 3)

    def service(asce, ctx, msg):
        asce.send(make_msg(data, as_file=as_file), ctx.id)
    service.sop_classes = [SOP]
    ae = fd.make_ae('SRV', [TS], 16384)
    try:
        ae.add_scp(service)

        def plan(dul):
            dul.push_pdu(fd.rq_spec([(1, SOP, [TS])], P))
            dul.push_msg({0x0002: SOP, 0x0100: 0x0020, 0x0110: 1, 0x0700: 0}, b'\x08\x00\x52\x00\x06\x00\x00\x00STUDY ', 1)
        acc, fac, exc = fd.run_acceptor(ae, [plan], lazy=False)
    finally:
        ae.server_close()
    dul = fac.instances[0]
    for rec in dul.sent_msgs():
        too = [n for n in rec['pdu_lengths'] if n > P]
        if too:
            raise Violation('C10:too-long:tiny-limit', 'peer announced a maximum of %d; a P-DATA-TF of length %d was handed to the '
                            'provider (data set given as %s)' % (P, max(too), 'file-like object' if as_file else 'bytes'), case)


def run_requestor_case(L, P, lengths, entity='ClientAE'):
    from pynetdicom2 import applicationentity, sopclass
    case = {'role': 'requestor', 'L': L, 'P': P, 'lengths': lengths, 'entity': entity}
    if entity == 'ClientStorageAE':
        import pynetdicom2
        ae = pynetdicom2.ClientStorageAE('/nonexistent-not-used', 'CLI', [TS], L)
    else:
        ae = applicationentity.ClientAE('CLI', [TS], L)
    ae.timeout = 0.01

    def scu(asce, ctx):
        return None
    scu.sop_classes = [SOP]
    ae.add_scu(scu)

    def responder(dul, rec):
        if rec['kind'] == 'pdu' and rec['spec'].get('t') == 1:
            ids = [it['id'] for it in rec['spec']['items'] if it['t'] == 0x20]
            return [fd.incoming_pdu(reorder_subs(fd.ac_spec([(i, 0, TS) for i in ids], P, reserved=reserved_fill(L, P)), sub_order(L, P)))]
        if rec['kind'] == 'pdu' and rec['spec'].get('t') == 5:
            return [fd.incoming_pdu({'t': 6, 'r1': 0, 'r2': 0})]
        return []

    def plan(dul):
        dul.responder = responder
    fac = fd.Factory([plan])
    datas = [payload(n, 2) for n in lengths]
    try:
        with fd.installed(fac):
            with ae.request_association({'aet': 'SRV', 'address': 'peer.example', 'port': 104}) as assoc:
                dul = fac.instances[0]
                rqs = dul.sent_pdus(1)
                if len(rqs) != 1:
                    raise Violation('C10:no-rq', 'no A-ASSOCIATE-RQ', case)
                subs = [s for it in rqs[0]['spec']['items'] if it['t'] == 0x50 for s in it['subs'] if s['t'] == 0x51]
                if len(subs) != 1:
                    raise Violation('C10:no-maxlen:requestor', 'A-ASSOCIATE-RQ carries %d Maximum Length sub-items'
                                    % len(subs), case)
                check_announced('requestor', L, subs[0]['max'], case)
                for di, d in enumerate(datas):
                    before = len(dul.sent)
                    assoc.send(make_msg(d, as_file=di % 2 == 0, tags=-min(lengths[di] or 0, 0)), 1)
                    recs = dul.sent[before:]
                    if len(recs) != 1:
                        raise Violation('C10:nothing-sent:requestor', 'send queued %d primitives' % len(recs), case)
                    check_sent('requestor', recs[0], P, d, case, tags=-min(lengths[di] or 0, 0))
    except Violation:
        raise
    except Exception as exc:
        raise Violation('C10:exception:%s' % lib_frame(exc), 'requestor (max %d, peer %d) raised %r' % (L, P, exc), case)


def run_same_object_two_associations(ctx):
    """One message object (a keep-alive echo, a canned response) is sent on an association with one limit and then
    on another association with another limit: every send is fragmented for the association it goes out on."""
    from pynetdicom2 import dimsemessages
    for first, second in ((0, 64), (16384, 64), (64, 0), (128, 70), (0, 7), (65536, 1030)):
        for with_data in (False, True):
            case = {'role': 'same-object', 'limits': [first, second], 'with_data': with_data}
            msg = dimsemessages.CFindRSPMessage()
            msg.sop_class_uid = SOP
            msg.message_id_being_responded_to = 3
            msg.status = 0xFF00
            data = dg.patterned(300, 5) if with_data else None
            ctx.case(('same-object', first, second, with_data), True, labels=['same-object-two-associations'], sample=case)
            try:
                for limit in (first, second, first):
                    msg.data_set = data
                    assoc = dg.make_assoc(limit)
                    assoc.send(msg, 1)
                    pdus = assoc.dul.sent[0]
                    lengths = [len(p.encode()) - 6 for p in pdus]
                    if limit and max(lengths) > limit:
                        raise Violation('C10:too-long:same-object', 'a message object sent before on an association with limit %d '
                                        'went out in P-DATA-TF PDUs of up to %d bytes on one with limit %d'
                                        % (first if limit == second else second, max(lengths), limit), case)
                    frags = dg.split_fragments(pdus)
                    got = b''.join(p_ for _, h, p_ in frags if h is not None and not h & 1)
                    if got != (data or b''):
                        raise Violation('C10:data-lost:same-object', '%d of %d data bytes sent' % (len(got), len(data or b'')), case)
            except Violation as v:
                ctx.fail(v.key, v.what, v.case)
            except Exception as exc:
                ctx.fail('C10:exception:%s' % lib_frame(exc), 'sending one object on two associations raised %r' % (exc,), case)


def run_provider_read_sizes(ctx):
    """'Remain able to send/receive' also concerns the provider underneath: a provider created with the locally
    configured maximum L (incl. 0 = no limit and the smallest values) must carry a conversation in which the peer
    RESPECTS that maximum - P-DATA-TF PDUs of at most L bytes, association PDUs of any size - and deliver the same
    messages as a provider with the default maximum does."""
    from .. import convs, simnet, refcmd, refpdu
    from .c13 import full_script
    from ..pdugen import first_diff
    data = dg.patterned(1500, 4)
    cmd = refcmd.encode({0x0002: convs.STORE_UID, 0x0100: 0x0001, 0x0110: 7, 0x0700: 0, 0x0800: 0x0001, 0x1000: '1.2.3.4.5.6'})

    def conversation(role, limit):
        pdus = [refpdu.enc_pdu({'t': 4, 'r': 0, 'pdvs': [f]}) for f in dg.ref_fragments(cmd, data, limit, 3)]
        if role == 'acceptor':
            return [('burst', convs.enc(convs.RQ_SPEC)), ('user', {'pdu': convs.AC_SPEC}), ('burst', pdus),
                    ('burst', convs.enc(convs.REL_RQ)), ('user', {'pdu': convs.REL_RP}), ('close',)]
        return [('user', {'pdu': convs.RQ_SPEC}), ('burst', convs.enc(convs.AC_SPEC)), ('burst', pdus),
                ('user', {'pdu': convs.REL_RQ}), ('burst', convs.enc(convs.REL_RP)), ('close',)]
    for role in ('acceptor', 'requestor'):
        base = None
        for L in [65536] + GRID:
            limit = min(L, 65536) if L else 65536
            sim = simnet.run_scenario(role, full_script(conversation(role, limit)), max_pdu=L, budget=200000)
            obs = {'outcome': sim.outcome[0], 'inds': [convs.describe_ind(i) for i in sim.indications()], 'wire': sim.wire(),
                   'final': sim.final()['state']}
            case = {'role': 'provider', 'conv': role, 'L': L}
            if base is None:
                base = obs
                continue
            ctx.case(('provider', role, L), True, labels=['provider-read-size', 'own-unlimited' if L == 0 else 'own-limited'],
                     sample={'role': role, 'provider_max_pdu_length': L, 'peer sends P-DATA-TF of at most': limit})
            if obs['outcome'] != base['outcome'] or first_diff(base['inds'], obs['inds']) or obs['wire'] != base['wire'] \
                    or obs['final'] != base['final']:
                ctx.fail('C10:provider-cannot-receive', 'a provider configured with maximum PDU length %d cannot carry a '
                         'conversation (%s) whose P-DATA-TF PDUs respect that maximum: %d indications (expected %d), %d bytes '
                         'sent (expected %d), outcome %s'
                         % (L, role, len(obs['inds']), len(base['inds']), len(obs['wire']), len(base['wire']), obs['outcome']),
                         case)


def loopback_exact_peer(L, P, n_bytes):
    """The real requesting stack (own maximum L) against a raw-socket peer that applies PS3.8 Annex D.1 to the letter:
    it announces P for what it receives, and fills the PDUs IT sends up to what the requester announced (L) - not
    up to min(L, P).  The requester must take a C-FIND response of n_bytes sent that way."""
    import socket
    import threading
    from pynetdicom2 import applicationentity, sopclass, exceptions
    from pydicom.dataset import Dataset
    from .. import refpdu, loopback as lb, svc
    from .c14 import _read_pdu
    case = {'role': 'loopback-exact-peer', 'L': L, 'P': P, 'bytes': n_bytes}
    FIND = '1.2.840.10008.5.1.4.1.2.1.1'
    ds = Dataset()
    ds.QueryRetrieveLevel = 'PATIENT'
    ds.PatientID = 'X' * 64
    ds.PatientComments = 'c' * n_bytes
    ident = svc.enc_ds(ds, svc.IMPLICIT)
    srv = socket.socket(socket.AF_INET, socket.SOCK_STREAM)
    srv.bind(('127.0.0.1', 0))
    srv.listen(1)
    port = srv.getsockname()[1]
    errors, seen = [], {}

    def peer():
        try:
            conn, _ = srv.accept()
            conn.settimeout(10)
            rq = refpdu.parse_pdu(_read_pdu(conn))
            announced = [s_['max'] for it in rq['items'] if it['t'] == 0x50 for s_ in it['subs'] if s_['t'] == 0x51]
            seen['announced'] = announced[0] if announced else None
            pcs = [it for it in rq['items'] if it['t'] == 0x20]
            conn.sendall(refpdu.enc_pdu(fd.ac_spec([(it['id'], 0, TS) for it in pcs], P)))
            req = refpdu.parse_pdu(_read_pdu(conn))          # command (and perhaps identifier) of the C-FIND-RQ
            pc = req['pdvs'][0]['id']
            while not any(v['data'][0] == 2 for v in req['pdvs']):
                req = refpdu.parse_pdu(_read_pdu(conn))
            limit = seen['announced'] or 1 << 20
            for status, data in ((0xFF00, ident), (0x0000, None)):
                cmd = refcmd.encode({0x0002: FIND, 0x0100: 0x8020, 0x0120: 1, 0x0800: 0x0001 if data else 0x0101, 0x0900: status})
                for fr in dg.ref_fragments(cmd, data, limit, pc):
                    conn.sendall(refpdu.enc_pdu({'t': 4, 'r': 0, 'pdvs': [fr]}))
            rel = _read_pdu(conn)
            if rel and rel[0] == 5:
                conn.sendall(refpdu.enc_pdu({'t': 6, 'r1': 0, 'r2': 0}))
            conn.close()
        except Exception as exc:      # noqa
            errors.append(exc)
        finally:
            srv.close()
    th = threading.Thread(target=peer, daemon=True)
    th.start()
    ae = applicationentity.ClientAE('CLI', [TS], L)
    ae.timeout = 8
    ae.add_scu(sopclass.qr_find_scu, [FIND])
    got, raised = [], None
    try:
        with ae.request_association({'aet': 'SRV', 'address': '127.0.0.1', 'port': port}) as assoc:
            q = Dataset()
            q.QueryRetrieveLevel = 'PATIENT'
            q.PatientID = ''
            for match, status in assoc.get_scu(FIND)(q, 1):
                got.append((None if match is None else len(str(getattr(match, 'PatientComments', ''))), int(status)))
    except exceptions.DCMTimeoutError:
        raise lb.Inconclusive('library time-out')
    except Exception as exc:
        raised = exc
    th.join(5)
    if errors and raised is None and got == [(n_bytes, 0xFF00), (None, 0)]:
        return
    if raised is not None or got != [(n_bytes, 0xFF00), (None, 0)]:
        raise Violation('C10:cannot-receive-what-it-announced', 'a requester that announced a maximum of %r (configured %d) to a peer '
                        'announcing %d: the peer sent a %d-byte match in P-DATA-TF PDUs of up to the length the requester '
                        'announced; the requester got %r, raised %r' % (seen.get('announced'), L, P, n_bytes, got, raised), case)


def run_loopback(ctx):
    from .. import loopback as lb
    for L, P, n in ((16384, 4096, 7000), (65536, 1024, 30000), (0, 2048, 20000), (16384, 16384, 7000), (4096, 16384, 7000)):
        ctx.case(('exact-peer', L, P, n), L != P, labels=['loopback-exact-peer'], sample={'own': L, 'peer announces': P, 'match bytes': n})
        try:
            lb.reproduced(loopback_exact_peer, L, P, n)
        except lb.Inconclusive:
            ctx.inconclusive += 1
        except Violation as v:
            ctx.fail(v.key, v.what, v.case)


def run_pairs(ctx, job):
    quiet_warnings()
    for (L, P) in job['pairs']:
        lengths = data_lengths(P, L)
        for role, fn in (('acceptor', run_acceptor_case), ('requestor', run_requestor_case),
                         ('acceptor-hook', lambda l, p, ln: run_acceptor_case(l, p, ln, via_hook=True)),
                         ('acceptor-StorageAE', lambda l, p, ln: run_acceptor_case(l, p, ln[:3], entity='StorageAE')),
                         ('requestor-ClientStorageAE', lambda l, p, ln: run_requestor_case(l, p, ln[:3], entity='ClientStorageAE'))):
            try:
                fn(L, P, lengths)
            except Violation as v:
                ctx.fail(v.key, v.what, v.case)
            for n in lengths:
                ctx.case((role, L, P, n), L != P or L == 0, labels=['grid', 'role=' + role,
                                                                   'peer-unlimited' if P == 0 else 'peer-limited',
                                                                   'own-unlimited' if L == 0 else 'own-limited'],
                         sample={'role': role, 'own_max': L, 'peer_announced': P, 'data_len': n})


def run_random(ctx, n):
    vals = st.one_of(st.sampled_from(GRID), st.integers(7, 70000), st.integers(0, 2 ** 32 - 1))
    strat = st.tuples(vals, vals, st.sampled_from(['acceptor', 'requestor']),
                      st.lists(st.one_of(st.none(), st.integers(1, 5000), st.integers(-6000, -1)), min_size=1, max_size=3))

    def fn(value):
        L, P, role, lengths = value
        if 0 < L < 7 or 0 < P < 7:
            return              # below the smallest PDU that can carry a payload byte: outside the domain
        ctx.case((role, L, P, lengths), L != P or L == 0, labels=['random', 'role=' + role],
                 sample={'role': role, 'own_max': L, 'peer_announced': P, 'data_lens': lengths})
        (run_acceptor_case if role == 'acceptor' else run_requestor_case)(L, P, lengths)
    hyp_search(ctx, strat, fn, n, name='C10-random')


def run(ctx):
    quiet_warnings()
    ctx.exhaustive = True
    ctx.rule = ('exhaustive grid: (own configured maximum, peer-announced maximum) over %d x %d boundary values '
                '(0 = no limit .. 2^32-1) x {acceptor, acceptor whose limit is set per peer in the on_association_request hook, the storage entities StorageAE / ClientStorageAE, requestor} x data lengths {none, 1, f-1, f, f+1, 3f+1} and a data-less message whose command set is longer than one fragment (Offending Element list), the Maximum Length sub-item first / last / in the middle of the user information and the reserved bytes of its PDU zero or not, around '
                'the fragment size the peer\'s value implies (capped at %d bytes); plus Hypothesis pairs; after real '
                'negotiation through AssociationAcceptor.handle / request_association every message (data set given as bytes or as a file-like object, alternating) is sent with '
                'Association.send; non-trivial = the two values differ or one is 0'
                % (len(GRID), len(GRID), CAP))
    ctx.assumptions = ['send limit = peer-announced value, 0 = unlimited; the implementation may tighten it, never '
                       'loosen it', 'announced value A must satisfy: own limit L != 0  =>  0 < A <= L',
                       'values 1..6 (cannot carry a payload byte) are outside the domain of "remain able to send"; "never longer than announced" is checked for them too',
                       'the provider is created with the configured maximum, which is the size it passes to recv(): checked on the simulated transport']
    pairs = [(L, P) for L in GRID for P in GRID]
    parallel(ctx, run_pairs, [{'pairs': pairs[i::16]} for i in range(16)])
    # limits above 1 MiB that are not a multiple of it, with file-like data sets several times that size
    for L, P in ((0, 1572864), (4194304, 1572870), (2 * 1048576 + 13, 0), (4194304, 1048576 + 7)):
        for role, fn in (('requestor', run_requestor_case), ('acceptor', run_acceptor_case)):
            lengths = [3 * 1048576 + 11, 3 * 1048576 + 11]      # (one is sent as bytes, the other as a file-like object)
            try:
                fn(L, P, lengths)
            except Violation as v:
                ctx.fail(v.key, v.what, v.case)
            ctx.case((role, L, P, 'big'), True, labels=['limits-above-1MiB', 'role=' + role],
                     sample={'role': role, 'own_max': L, 'peer_announced': P, 'data_len': lengths[0]})
    run_same_object_two_associations(ctx)
    for P in (1, 4, 5, 6):
        for as_file in (False, True):
            ctx.case(('tiny-limit', P, as_file), True, labels=['peer-announces-1..6'], sample={'peer announced': P, 'file-like': as_file})
            ctx.check(tiny_limit_case, P, as_file)
    run_provider_read_sizes(ctx)
    run_loopback(ctx)
    run_random(ctx, 8000 if ctx.thorough else 500)


def replay(case):
    quiet_warnings()
    if case.get('role') == 'tiny-limit':
        tiny_limit_case(case['P'], case['as_file'])
        return
    if case.get('role') == 'loopback-exact-peer':
        from .. import loopback as lb
        try:
            loopback_exact_peer(case['L'], case['P'], case['bytes'])
        except lb.Inconclusive as inc:
            print('inconclusive: %s' % inc)
        return
    if case['role'] == 'same-object':
        from ..common import Ctx
        sub = Ctx('C10', 'quick', 1)
        run_same_object_two_associations(sub)
        for key, ent in sorted(sub.failures.items()):
            raise Violation(key, ent['what'], ent['case'])
        return
    if case['role'] == 'provider':
        from ..common import Ctx
        sub = Ctx('C10', 'quick', 1)
        run_provider_read_sizes(sub)
        for key, ent in sorted(sub.failures.items()):
            raise Violation(key, ent['what'], ent['case'])
        return
    if case['role'] == 'acceptor':
        run_acceptor_case(case['L'], case['P'], case['lengths'], case.get('via_hook', False), case.get('entity', 'AE'))
    else:
        run_requestor_case(case['L'], case['P'], case['lengths'], case.get('entity', 'ClientAE'))
