"""C08 - transmitted command sets are well-formed (group length, order, type, data-set flag)."""
from __future__ import annotations

import warnings

from hypothesis import strategies as st

from .. import dimsegen as dg
from .. import refcmd
from ..common import Violation, HarnessError, hyp_search, parallel, lib_frame, quiet_warnings
from .c06 import norm

LEVEL = 'exploration'


def observe(assoc, msg, pc_id):
    """Send through the real Association.send; return (command bytes, number of data fragments)."""
    before = len(assoc.dul.sent)
    assoc.send(msg, pc_id)
    pdus = assoc.dul.sent[before]
    frags = dg.split_fragments(pdus)
    cmd = b''.join(p for _, h, p in frags if h is not None and h & 1)
    ndata = len([1 for _, h, p in frags if h is not None and not h & 1])
    return cmd, ndata


def check_send(cf, cmd, ndata, spec_fields, step, case):
    fields, defects = refcmd.wellformed(cmd, cf)
    for d in defects:
        kind = d.split(':')[0].split(' says')[0].split(',')[0]
        key = ('group-length' if d.startswith('group length') else
               'order' if d.startswith('tags not') else
               'odd-length' if 'odd length' in d else
               'command-field' if d.startswith('command field') else
               'first-element' if d.startswith('first element') else 'syntax')
        raise Violation('C08:%s' % key, 'send #%d of %s: %s' % (step + 1, refcmd.MESSAGES[cf][0], d), case)
    flag = fields.get(0x0800)
    if (flag == refcmd.NO_DATASET) != (ndata == 0):
        raise Violation('C08:dataset-flag:%s' % ('stale-present' if ndata == 0 else 'says-none'),
                        'send #%d of %s: Command Data Set Type %s with %d data fragments'
                        % (step + 1, refcmd.MESSAGES[cf][0],
                           ('%04XH' % flag) if isinstance(flag, int) else repr(flag), ndata), case)
    for kw, want in spec_fields.items():
        el = refcmd.ELEMENTS[kw][0]
        if norm(fields.get(el)) != norm(want):
            raise Violation('C08:field-value', 'send #%d: (0000,%04X) carries %r, message has %r'
                            % (step + 1, el, fields.get(el), want), case)


_PROPS = {}


def property_for(cls):
    """keyword -> name of the dimse_property of cls bound to that element (found by probing, no name guessing)."""
    if cls in _PROPS:
        return _PROPS[cls]
    out = {}
    probe = cls()
    for kw in dg.class_keywords(probe.command_field):
        vr = refcmd.ELEMENTS[kw][1]
        sentinel = {'UI': '9.9.9', 'US': 4242, 'AE': 'PROBE', 'AT': [0x00100020]}.get(vr)
        if sentinel is None:
            continue
        setattr(probe.command_set, kw, sentinel)
        for name in dir(cls):
            if name.startswith('_') or not isinstance(getattr(cls, name, None), property) or name == 'data_set':
                continue
            try:
                if getattr(probe, name) == sentinel or (vr == 'AT' and getattr(probe, name) is not None and
                                                        list(getattr(probe, name)) == sentinel):
                    out[kw] = name
                    break
            except Exception:
                continue
        setattr(probe.command_set, kw, '')
    _PROPS[cls] = out
    return out


def run_history(cf, steps, pc_id, M, from_decoded=False, lazy=False):
    """steps: list of {'fields': {...}, 'data': bytes|None}; the SAME message object is re-sent after
    applying each step's field changes and data-set assignment.  lazy=True: the provider consumes the
    queued messages only after all sends were issued (slow provider thread)."""
    from pynetdicom2 import dimsemessages, dsutils
    case = {'cf': cf, 'steps': steps, 'pc_id': pc_id, 'M': M, 'from_decoded': from_decoded, 'lazy': lazy}
    cls = dimsemessages.MESSAGE_TYPE[cf]
    try:
        if from_decoded:
            # a message object created from a decoded command set (what the receiver builds), re-sent
            first = dg.expected_fields({'cf': cf, 'fields': steps[0]['fields'], 'data': steps[0]['data']})
            if steps[0]['data']:
                # the peer that sent it used another of the legal 'data set present' codes
                first[0x0800] = (0x0001, 0x0000, 0x0102, 0xFFFF)[(pc_id + M + len(steps)) % 4]
            msg = cls(dsutils.decode(refcmd.encode(first), True, True))
        else:
            msg = cls()
        assoc = dg.make_assoc(M, lazy)
        if (pc_id + M) % 2 == 0 and (cf & 0x8000) and (cf & 0x7FFF) in dimsemessages.MESSAGE_TYPE:
            # the association has a history: the request this response answers was received on it (through the public
            # receive()), with a message ID of its own
            rq = dimsemessages.MESSAGE_TYPE[cf & 0x7FFF]()
            rq.message_id = 4242
            assoc.dul.inbox.append((rq, pc_id))
            got_rq, got_pc = assoc.receive()
            if got_rq is not rq or got_pc != pc_id:
                raise HarnessError('recorder: receive() returned %r' % ((got_rq, got_pc),))
        if (pc_id + M) % 3 == 0:
            dg.provoke_encode_failure()     # an earlier, unrelated encoding error in this thread
        current = {}
        snapshots = []
        props = property_for(cls)
        for i, stp in enumerate(steps):
            data_first = (i + pc_id + M) % 3 == 1
            if data_first:
                # the data set (e.g. the identifier / failed-instance list) is attached BEFORE status and the other
                # fields are filled in: the order of assignments is the application's business
                msg.data_set = stp['data']
            for j, (kw, v) in enumerate(sorted(stp['fields'].items())):
                # alternate between the two public routes: the message's own property and the command data set
                if kw in props and (i + j + pc_id) % 2 == 0:
                    setattr(msg, props[kw], v)
                else:
                    setattr(msg.command_set, kw, v)
                current[kw] = v
            if not data_first:
                msg.data_set = stp['data']
            if stp['data'] and (i + pc_id + M) % 5 == 2:
                # the application keeps the data set in a file-like object and sends a COPY of the message (copy,
                # deep copy or a pickle round trip - a work queue between threads or processes does that)
                import copy
                import io
                import pickle
                msg.data_set = io.BytesIO(stp['data'])
                how = (i + M) % 3
                msg = copy.copy(msg) if how == 0 else copy.deepcopy(msg) if how == 1 else pickle.loads(pickle.dumps(msg))
            if stp['data'] and (i + pc_id + M) % 5 == 4:
                # the application spools the data set into a file-like object of its own: the object is handed to the
                # message while it is still positioned at its end (or even before anything was written to it) and is
                # rewound afterwards - what counts is what it delivers when the message is sent
                import io
                fp = io.BytesIO()
                if (i + M) % 2:
                    fp.write(stp['data'])
                    msg.data_set = fp
                else:
                    msg.data_set = fp
                    fp.write(stp['data'])
                fp.seek(0)
            if lazy:
                assoc.send(msg, pc_id)
                snapshots.append((dict(current), bool(stp['data'])))
            else:
                cmd, ndata = observe(assoc, msg, pc_id)
                check_send(cf, cmd, ndata, current, i, case)
        if lazy:
            assoc.dul.drain()
            for i, (pdus, (cur, has_data)) in enumerate(zip(assoc.dul.sent, snapshots)):
                frags = dg.split_fragments(pdus)
                cmd = b''.join(p for _, h, p in frags if h is not None and h & 1)
                ndata = len([1 for _, h, p in frags if h is not None and not h & 1])
                check_send(cf, cmd, ndata, cur, i, case)
                if (ndata > 0) != has_data:
                    raise Violation('C08:late-encoding', 'send #%d: %d data fragments transmitted, message had %s data '
                                    'set when it was sent' % (i + 1, ndata, 'a' if has_data else 'no'), case)
    except Violation:
        raise
    except Exception as exc:
        raise Violation('C08:exception:%s' % lib_frame(exc), 'sending raised %r' % (exc,), case)


@st.composite
def history(draw, cf=None):
    cf = cf if cf is not None else draw(st.sampled_from(dg.ALL_CF))
    n = draw(st.integers(1, 4))
    steps = []
    for i in range(n):
        f = draw(dg.fields_for(cf, all_set=False)) if i == 0 else \
            draw(dg.fields_for(cf).map(lambda d: dict(list(d.items())[:2])))
        if cf & 0x8000 and draw(st.integers(0, 3)) == 0:
            # optional elements of a PS3.7 failure response that no message class of the library declares: the
            # application adds them through the public command_set
            extra = draw(st.sets(st.sampled_from(['ErrorComment', 'OffendingElement', 'ErrorID']), min_size=1))
            f = dict(f)
            for kw in sorted(extra):
                f[kw] = draw(dg.value_for(refcmd.ELEMENTS[kw][1]))
        steps.append({'fields': f, 'data': draw(dg.data_bytes(60))})
    return cf, steps, draw(st.integers(1, 255)), draw(st.sampled_from([16, 38, 64, 1024, 65536])), \
        draw(st.booleans())


def nontrivial(steps):
    toggled = len({bool(s['data']) for s in steps}) > 1
    odd_uid = any(isinstance(v, str) and len(v) % 2 for s in steps for v in s['fields'].values())
    return len(steps) >= 2 or odd_uid or toggled


def labels(cf, steps, dec):
    out = ['cf=%04X' % cf, 'sends=%d' % len(steps), 'decoded-origin' if dec else 'constructed']
    if any(kw in s['fields'] for s in steps for kw in ('ErrorComment', 'OffendingElement', 'ErrorID')):
        out.append('undeclared-optional-elements')
    pres = [bool(s['data']) for s in steps]
    for a, b in zip(pres, pres[1:]):
        out.append('toggle=%s>%s' % ('ds' if a else 'none', 'ds' if b else 'none'))
    return out


def run_class(ctx, job):
    quiet_warnings()
    for cf in job['cfs']:
        def fn(value, cf=cf):
            _, steps, pc_id, M, dec = value
            ctx.case((cf, steps, dec), nontrivial(steps), labels=labels(cf, steps, dec),
                     sample={'cf': cf, 'steps': steps, 'from_decoded': dec})
            run_history(cf, steps, pc_id, M, dec)
            run_history(cf, steps, pc_id, M, dec, lazy=True)
        hyp_search(ctx, history(cf), fn, job['n'], name='C08-%04X' % cf, max_buckets=4)


def run_uid_lengths(ctx):
    """UIDs of every length 1..64 in every UID field of every class, sent twice."""
    for cf in dg.ALL_CF:
        kws = [k for k in dg.class_keywords(cf) if refcmd.ELEMENTS[k][1] == 'UI']
        for n in range(1, 65):
            u = ('1.2.840.10008.' + '1234567890' * 7)[:n]
            fields = {k: u for k in kws}
            steps = [{'fields': fields, 'data': None}, {'fields': {}, 'data': b'ab' if n % 2 else None}]
            try:
                run_history(cf, steps, 1, 1024)
            except Violation as v:
                ctx.fail(v.key, v.what, v.case)
            ctx.case(('uidlen', cf, n), True, labels=['uid-length-enum'])


def run_storage_files(ctx):
    """The C-STORE-RQ that storage_scu builds from a FILE NAME (it reads the file meta information, and the data set
    itself when the meta information lacks the instance UID): same well-formedness, and 'data set present' must be
    followed by the file's data set."""
    import os
    import tempfile
    import pydicom
    from pynetdicom2 import applicationentity, sopclass
    from .. import fakedul as fd, svc
    tmp = tempfile.mkdtemp(prefix='vf_c08_')
    try:
        for ts in (svc.IMPLICIT, svc.EXPLICIT):
            for meta_uid in (True, False):
                for pixels in (False, True):
                    case = {'storage_file': True, 'ts': ts, 'meta_instance_uid': meta_uid, 'pixel_data': pixels}
                    ds = svc.simple_ds(PatientName='File^Source', PatientID='F1', SOPClassUID=svc.SC_STORAGE,
                                       SOPInstanceUID='1.2.826.0.1.3680043.9.8.%d' % (1 + meta_uid + 2 * pixels))
                    if pixels:
                        ds.Rows, ds.Columns, ds.BitsAllocated = 2, 3, 8
                        ds.PixelData = b'\x01\x02\x03\x04\x05\x06'
                        ds['PixelData'].VR = 'OB'
                    path = os.path.join(tmp, 'f.dcm')
                    fm = pydicom.dataset.FileMetaDataset()
                    fm.MediaStorageSOPClassUID = svc.SC_STORAGE
                    fm.MediaStorageSOPInstanceUID = ds.SOPInstanceUID
                    fm.TransferSyntaxUID = ts
                    fds = pydicom.dataset.FileDataset(path, ds, file_meta=fm, preamble=b'\0' * 128)
                    fds.is_implicit_VR = ts == svc.IMPLICIT
                    fds.is_little_endian = True
                    fds.save_as(path, write_like_original=False)
                    if not meta_uid:
                        full = pydicom.dcmread(path)
                        del full.file_meta.MediaStorageSOPInstanceUID
                        full.file_meta.FileMetaInformationGroupLength = 0
                        full.save_as(path, write_like_original=True)
                    want_data = svc.enc_ds(ds, ts)
                    seen = {}

                    def responder(dul, rec):
                        if rec['kind'] == 'pdu':
                            t = rec['spec'].get('t')
                            if t == 1:
                                pcs = [it for it in rec['spec']['items'] if it['t'] == 0x20]
                                return [fd.incoming_pdu(fd.ac_spec([(it['id'], 0, ts) for it in pcs], 16384))]
                            return [fd.incoming_pdu({'t': 6, 'r1': 0, 'r2': 0})] if t == 5 else []
                        seen['rq'] = rec
                        f = {0x0002: rec['fields'].get(0x0002), 0x0100: 0x8001, 0x0120: rec['fields'].get(0x0110), 0x0900: 0,
                             0x1000: rec['fields'].get(0x1000)}
                        pc = rec['pc_ids'][0]
                        return [lambda: fd.incoming_msg(dul, f, None, pc)]
                    fac = fd.Factory([lambda d: setattr(d, 'responder', responder)])
                    ae = applicationentity.ClientAE('CLI', [ts])
                    ae.timeout = 0.01
                    ae.add_scu(sopclass.storage_scu, [svc.SC_STORAGE])
                    ctx.case(('storage-file', ts, meta_uid, pixels), True, labels=['storage_scu-from-file'], sample=case)
                    try:
                        with fd.installed(fac):
                            with ae.request_association({'aet': 'SRV', 'address': 'peer.example', 'port': 104}) as assoc:
                                assoc.get_scu(svc.SC_STORAGE)(path, 7)
                    except Exception as exc:
                        if 'rq' not in seen:
                            ctx.fail('C08:storage-file:exception:%s' % lib_frame(exc), 'storage_scu(%r) raised %r' % (case, exc), case)
                            continue
                    rq = seen.get('rq')
                    if rq is None:
                        ctx.fail('C08:storage-file:nothing-sent', 'no C-STORE-RQ was sent for %r' % (case,), case)
                        continue
                    try:
                        ndata = len([1 for _, h, _ in rq['frags'] if h is not None and not h & 1])
                        check_send(0x0001, rq['cmd'], ndata, {'AffectedSOPInstanceUID': str(ds.SOPInstanceUID),
                                                              'AffectedSOPClassUID': svc.SC_STORAGE}, 0, case)
                        if (rq['data'] or b'') != want_data:
                            raise Violation('C08:storage-file:data', 'C-STORE-RQ announces a data set; %d data bytes follow, the '
                                            'file holds %d' % (len(rq['data'] or b''), len(want_data)), case)
                    except Violation as v:
                        ctx.fail(v.key, v.what, v.case)
    finally:
        import shutil
        shutil.rmtree(tmp, ignore_errors=True)


def run(ctx):
    quiet_warnings()
    try:
        refcmd.self_test()
    except refcmd.CmdError as exc:
        raise HarnessError('reference self-test: %s' % exc)
    ctx.rule = ('per message class: Hypothesis histories of 1-4 sends of the SAME message object through '
                'Association.send with field changes and data set attached/removed between sends (objects '
                'constructed normally or from a decoded command set), plus UIDs of every length 1..64 in every '
                'UID field; the C-STORE-RQ storage_scu builds from a file name (meta information with / without instance UID, with / without pixel data); data sets in file-like objects handed over while positioned at their end / still empty and rewound before the send, copies (copy / deepcopy / pickle) of messages; the concatenated command fragments of every send are parsed by the independent '
                'reader; non-trivial = >=2 sends, an odd-length UID or a data-set toggle; distinct by history')
    ctx.assumptions = ['zero-length optional elements are accepted as well-formed',
                       'command dictionary and command-field codes transcribed from PS3.7 (vf/refcmd.py)']
    n = 8000 if ctx.thorough else 300
    parallel(ctx, run_class, [{'cfs': dg.ALL_CF[i::16], 'n': n} for i in range(16)])
    run_uid_lengths(ctx)
    run_storage_files(ctx)


def replay(case):
    quiet_warnings()
    if case.get('storage_file'):
        from ..common import Ctx
        sub = Ctx('C08', 'quick', 1)
        run_storage_files(sub)
        for key, ent in sorted(sub.failures.items()):
            raise Violation(key, ent['what'], ent['case'])
        return
    run_history(case['cf'], case['steps'], case['pc_id'], case['M'], case.get('from_decoded', False), case.get('lazy', False))
