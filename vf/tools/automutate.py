"""Systematic sensitivity measurement: generate first-order mutants of the anchored library sources with a fixed
set of syntactic operators, discard those the repository's own 70 stable tests already kill, and run the QUICK tier
of every check whose property is anchored in the mutated file.

    python -m vf.tools.automutate list  [--files a.py,b.py]
    python -m vf.tools.automutate run   [--files ...] [--jobs 4] [--shard i/n] [--limit N] [--out mutation/auto.jsonl]
    python -m vf.tools.automutate report [--out mutation/auto.jsonl]

Nothing is applied to /repo: every mutant lives in a scratch copy under /tmp that is removed afterwards.  A mutant
is identified by file:line:col:operator, so runs can be resumed and results compared across sessions.
"""
import ast
import json
import multiprocessing
import os
import shutil
import subprocess
import sys
import tempfile
import time

VERIF = os.path.dirname(os.path.dirname(os.path.dirname(os.path.abspath(__file__))))
REPO = '/repo'
FILES = ['pdu.py', 'userdataitems.py', 'fsm.py', 'dulprovider.py', 'dimsemessages.py', 'dsutils.py', 'asceprovider.py',
         'applicationentity.py', 'sopclass.py', 'statuses.py', '__init__.py']
# cheapest / most specific first; a mutant is killed by the first check that reports a violation
ORDER = ['C04', 'C18', 'C17', 'C11', 'C13', 'C10', 'C14', 'C09', 'C06', 'C07', 'C05', 'C01', 'C12', 'C08', 'C03',
         'C19', 'C16', 'C02', 'C15', 'C20']
SKIP_FUNCS = {'__repr__', '__str__'}
CMP = {ast.Eq: '!=', ast.NotEq: '==', ast.Lt: '<=', ast.LtE: '<', ast.Gt: '>=', ast.GtE: '>', ast.Is: 'is not',
       ast.IsNot: 'is', ast.In: 'not in', ast.NotIn: 'in'}


def anchored():
    by = {}
    for line in open(os.path.join(VERIF, 'properties.jsonl')):
        d = json.loads(line)
        for f in d['anchors']['files']:
            by.setdefault(os.path.basename(f), []).append(d['id'])
    return by


class Finder(ast.NodeVisitor):
    def __init__(self, src):
        self.src = src
        self.lines = src.splitlines(True)
        self.out = []
        self.skip_depth = 0

    def seg(self, node):
        return ast.get_source_segment(self.src, node)

    def add(self, node, op, new, what=None):
        if getattr(node, 'end_lineno', None) is None:
            return
        self.out.append({'line': node.lineno, 'col': node.col_offset, 'end_line': node.end_lineno,
                         'end_col': node.end_col_offset, 'op': op, 'new': new, 'old': what or self.seg(node)})

    def visit_FunctionDef(self, node):
        if node.name in SKIP_FUNCS:
            return
        body = node.body
        if body and isinstance(body[0], ast.Expr) and isinstance(getattr(body[0], 'value', None), ast.Constant) \
                and isinstance(body[0].value.value, str):
            body = body[1:]
        for d in node.decorator_list:
            self.visit(d)
        for st in body:
            self.visit(st)

    def visit_Expr(self, node):
        v = node.value
        if isinstance(v, ast.Constant) and isinstance(v.value, str):
            return                                   # docstring
        if isinstance(v, ast.Call):
            name = self.seg(v.func) or ''
            if name.startswith(('logger.', 'logging.', 'warnings.')):
                return
            self.add(node, 'del-call', 'pass')
        self.generic_visit(node)

    def visit_Assign(self, node):
        if len(node.targets) == 1 and isinstance(node.targets[0], ast.Attribute) and node.lineno == node.end_lineno:
            self.add(node, 'del-assign', 'pass')
        self.generic_visit(node)

    def visit_Compare(self, node):
        if len(node.ops) == 1 and type(node.ops[0]) in CMP:
            left, right = self.seg(node.left), self.seg(node.comparators[0])
            if left is not None and right is not None:
                self.add(node, 'cmp', '%s %s %s' % (left, CMP[type(node.ops[0])], right))
        self.generic_visit(node)

    def visit_BoolOp(self, node):
        parts = [self.seg(v) for v in node.values]
        if all(p is not None for p in parts) and node.lineno == node.end_lineno:
            joiner = ' or ' if isinstance(node.op, ast.And) else ' and '
            self.add(node, 'boolop', joiner.join('(%s)' % p for p in parts))
        self.generic_visit(node)

    def visit_UnaryOp(self, node):
        if isinstance(node.op, ast.Not):
            inner = self.seg(node.operand)
            if inner is not None:
                self.add(node, 'drop-not', '(%s)' % inner)
        self.generic_visit(node)

    def visit_BinOp(self, node):
        if isinstance(node.op, (ast.Add, ast.Sub)) and node.lineno == node.end_lineno:
            left, right = self.seg(node.left), self.seg(node.right)
            if left is not None and right is not None and not isinstance(node.left, ast.Constant) or \
                    (left is not None and right is not None and not isinstance(getattr(node.left, 'value', 0), str)):
                if not (isinstance(node.left, ast.Constant) and isinstance(node.left.value, (str, bytes))) and \
                        not (isinstance(node.right, ast.Constant) and isinstance(node.right.value, (str, bytes))):
                    self.add(node, 'arith', '(%s) %s (%s)' % (left, '-' if isinstance(node.op, ast.Add) else '+', right))
        self.generic_visit(node)

    def visit_Constant(self, node):
        v = node.value
        if isinstance(v, bool):
            self.add(node, 'bool', 'False' if v else 'True')
        elif isinstance(v, int):
            self.add(node, 'int+1', '%d' % (v + 1))
            if v not in (0, 1):
                self.add(node, 'int-1', '%d' % (v - 1))
            elif v == 1:
                self.add(node, 'int-1', '0')

    def visit_If(self, node):
        cond = self.seg(node.test)
        if cond is not None and node.test.lineno == node.test.end_lineno and \
                not isinstance(node.test, (ast.Compare, ast.UnaryOp, ast.BoolOp)):
            self.add(node.test, 'neg-if', 'not (%s)' % cond)
        self.generic_visit(node)

    def visit_Return(self, node):
        if node.value is not None and not (isinstance(node.value, ast.Constant) and node.value.value is None):
            if isinstance(node.value, ast.Constant) and isinstance(node.value.value, bool):
                pass                                  # covered by 'bool'
            elif node.lineno == node.end_lineno:
                self.add(node, 'ret-none', 'return None')
        self.generic_visit(node)

    def visit_Break(self, node):
        self.add(node, 'break-continue', 'continue')

    def visit_Continue(self, node):
        self.add(node, 'continue-break', 'break')


def mutants_of_file(fname):
    path = os.path.join(REPO, 'pynetdicom2', fname)
    src = open(path).read()
    tree = ast.parse(src)
    f = Finder(src)
    # class- and module-level statements are visited too (tables, formats), except docstrings
    f.visit(tree)
    seen, out = set(), []
    for m in f.out:
        mid = '%s:%d:%d:%s' % (fname, m['line'], m['col'], m['op'])
        if mid in seen:
            continue
        seen.add(mid)
        m['id'] = mid
        m['file'] = fname
        out.append(m)
    return out


def apply_mutant(tree_dir, m):
    path = os.path.join(tree_dir, 'pynetdicom2', m['file'])
    lines = open(path).read().splitlines(True)
    a, b = m['line'] - 1, m['end_line'] - 1
    # columns are utf-8 byte offsets
    first = lines[a].encode('utf-8')
    last = lines[b].encode('utf-8')
    new = first[:m['col']] + m['new'].encode('utf-8') + last[m['end_col']:]
    lines[a:b + 1] = [new.decode('utf-8')]
    with open(path, 'w') as fh:
        fh.write(''.join(lines))


def run_one(args):
    m, props, tier = args
    tmp = tempfile.mkdtemp(prefix='vfam_')
    t0 = time.time()
    res = {'id': m['id'], 'op': m['op'], 'old': (m['old'] or '')[:120], 'new': m['new'][:120], 'line': m['line'],
           'file': m['file']}
    try:
        for name in ('pynetdicom2', 'tests'):
            shutil.copytree(os.path.join(REPO, name), os.path.join(tmp, name))
        apply_mutant(tmp, m)
        try:
            compile(open(os.path.join(tmp, 'pynetdicom2', m['file'])).read(), m['file'], 'exec')
        except SyntaxError as exc:
            res['status'] = 'invalid'
            res['detail'] = str(exc)[:100]
            return res
        env = dict(os.environ, PYTHONDONTWRITEBYTECODE='1', PYTHONHASHSEED='0')
        try:
            t = subprocess.run(['/venv/bin/python', '-m', 'pytest', '-q', '-x', '-p', 'no:cacheprovider',
                                'tests/test_pdu.py', 'tests/test_dimsemessages.py'], cwd=tmp, env=env,
                               capture_output=True, text=True, timeout=120)
            tests_ok = t.returncode == 0
        except subprocess.TimeoutExpired:
            tests_ok = False
        if not tests_ok:
            res['status'] = 'killed-by-repo-tests'
            return res
        res['status'] = 'survived'
        res['checks'] = []
        for p in props:
            env2 = dict(env, VERIF_REPO=tmp, VERIF_OUT=os.path.join(tmp, 'out'), VERIF_SEED='1')
            t1 = time.time()
            try:
                r = subprocess.run(['/venv/bin/python', '-m', 'vf.run', p, '--tier', tier], cwd=VERIF, env=env2,
                                   capture_output=True, text=True, timeout=600)
                rc = r.returncode
                key = [l.strip()[:140] for l in r.stdout.splitlines() if l.strip().startswith('key=')][:1]
                if rc == 2:
                    key = [l.strip()[:140] for l in (r.stdout + r.stderr).splitlines() if 'HARNESS-ERROR' in l][:1]
            except subprocess.TimeoutExpired:
                rc, key = 'timeout', []
            res['checks'].append({'check': p, 'rc': rc, 'seconds': round(time.time() - t1, 1), 'key': key[0] if key else ''})
            if rc == 1:
                res['status'] = 'killed'
                res['killed_by'] = p
                break
        if res['status'] == 'survived' and any(c['rc'] == 2 for c in res['checks']):
            res['status'] = 'harness-error'
        return res
    finally:
        res['seconds'] = round(time.time() - t0, 1)
        shutil.rmtree(tmp, ignore_errors=True)


def main(argv):
    cmd = argv[0] if argv else 'list'
    files, jobs, shard, limit, out, tier = FILES, 4, None, None, os.path.join(VERIF, 'mutation', 'auto.jsonl'), 'quick'
    it = iter(argv[1:])
    for a in it:
        if a == '--files':
            files = next(it).split(',')
        elif a == '--jobs':
            jobs = int(next(it))
        elif a == '--shard':
            i, n = next(it).split('/')
            shard = (int(i), int(n))
        elif a == '--limit':
            limit = int(next(it))
        elif a == '--out':
            out = os.path.abspath(next(it))
        elif a == '--tier':
            tier = next(it)
    by = anchored()
    if cmd == 'report':
        return report(out)
    allm = []
    for f in files:
        ms = mutants_of_file(f)
        props = [p for p in ORDER if p in by.get(f, [])]
        for m in ms:
            allm.append((m, props, tier))
    if cmd == 'list':
        import collections
        c = collections.Counter((m['file'], m['op']) for m, _, _ in allm)
        for k, v in sorted(c.items()):
            print('%-24s %-16s %d' % (k[0], k[1], v))
        print('total', len(allm))
        return 0
    done = set()
    if os.path.exists(out):
        for line in open(out):
            try:
                done.add(json.loads(line)['id'])
            except ValueError:
                pass
    work = [w for w in allm if w[0]['id'] not in done]
    if shard:
        work = work[shard[0]::shard[1]]
    if limit:
        work = work[:limit]
    os.makedirs(os.path.dirname(out), exist_ok=True)
    print('%d mutants to run (%d already recorded)' % (len(work), len(done)), flush=True)
    with multiprocessing.Pool(jobs) as pool, open(out, 'a') as fh:
        for res in pool.imap_unordered(run_one, work):
            fh.write(json.dumps(res, sort_keys=True) + '\n')
            fh.flush()
            print('%-44s %-22s %s' % (res['id'], res['status'], res.get('killed_by', '')), flush=True)
    return report(out)


def report(out):
    import collections
    rows = [json.loads(l) for l in open(out)]
    st = collections.Counter(r['status'] for r in rows)
    print('mutants recorded: %d  %s' % (len(rows), dict(st)))
    relevant = [r for r in rows if r['status'] in ('killed', 'survived', 'harness-error')]
    killed = [r for r in relevant if r['status'] == 'killed']
    print('passing the repository tests: %d, killed by a check: %d (%.1f%%)' %
          (len(relevant), len(killed), 100.0 * len(killed) / max(1, len(relevant))))
    byf = collections.defaultdict(collections.Counter)
    for r in relevant:
        byf[r['file']][r['status']] += 1
    for f, c in sorted(byf.items()):
        print('  %-24s %s' % (f, dict(c)))
    kb = collections.Counter(r.get('killed_by') for r in killed)
    print('killed by:', dict(sorted(kb.items())))
    for r in relevant:
        if r['status'] != 'killed':
            print('  %-12s %-40s %s  ->  %s' % (r['status'], r['id'], r['old'][:60].replace('\n', ' '), r['new'][:60].replace('\n', ' ')))
    return 0


if __name__ == '__main__':
    sys.exit(main(sys.argv[1:]))
