#!/bin/sh
# usage: vf/tools/allchecks.sh <tier> <seed...>   - runs every registered check, prints one line each
cd "$(dirname "$0")/../.." || exit 2
TIER="$1"; shift
for SEED in "$@"; do
  for ID in C01 C02 C03 C04 C05 C06 C07 C08 C09 C10 C11 C12 C13 C14 C15 C16 C17 C18 C19 C20; do
    OUT=$(VERIF_SEED=$SEED VERIF_OUT=${VERIF_OUT:-/tmp/vf_allchecks_out} ./check $ID $TIER 2>&1); RC=$?
    echo "seed=$SEED $ID rc=$RC $(echo "$OUT" | tail -1)"
    [ $RC -ne 0 ] && echo "$OUT" | grep -E "VIOLATION|key=|HARNESS" | head -5
  done
done
