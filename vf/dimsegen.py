"""Message specs for DIMSE checks (C06-C08, C17): Hypothesis strategies, builders for library
message objects, and a reference fragmenter.

spec = {'cf': command field, 'fields': {keyword: value}, 'data': bytes | None}
"""
from __future__ import annotations

import io
import os
import tempfile

from hypothesis import strategies as st

from . import refcmd
from .pdugen import ints

ALL_CF = sorted(refcmd.MESSAGES)

uid_text = st.one_of(
    st.integers(1, 64).flatmap(lambda n: st.text('0123456789.', min_size=n, max_size=n)),
    st.sampled_from(['1.2.840.10008.1.1', '1.2.840.10008.5.1.4.1.1.2', '1.2.840.10008.5.1.4.1.1.88.11',
                     '1', '1' * 63, '2' * 64]))
ae_text = st.text('ABCDEFGHIJKLMNOPQRSTUVWXYZ0123456789_', min_size=1, max_size=16)
at_list = st.lists(st.integers(0, 0xFFFFFFFF), min_size=1, max_size=3)


def value_for(vr):
    if vr == 'UI':
        return uid_text
    if vr == 'US':
        # also values that MEAN something elsewhere in the protocol (status codes, command field codes, the
        # 'no data set' code, priorities): in a message id or a status they are just numbers
        return st.one_of(ints(0xFFFF), st.sampled_from([0x0101, 0x0001, 0x0002, 0x0030, 0x8030, 0x0020, 0x8020, 0x0FFF,
                                                        0xFE00, 0xFF00, 0xFF01, 0xB000, 0xA700, 0xC000, 0x0100, 0x0800]))
    if vr == 'AE':
        return ae_text
    if vr == 'AT':
        return at_list
    if vr == 'LO':
        return st.text('abc XYZ', min_size=1, max_size=10).map(lambda s: s.strip() or 'x')
    raise ValueError(vr)


def class_keywords(cf):
    from pynetdicom2 import dimsemessages
    cls = dimsemessages.MESSAGE_TYPE[cf]
    return [k for k in cls.command_fields if k != 'CommandGroupLength']


@st.composite
def fields_for(draw, cf, all_set=False):
    out = {}
    for kw in class_keywords(cf):
        if all_set or draw(st.integers(0, 4)) != 0:       # ~20% left unset (zero length)
            out[kw] = draw(value_for(refcmd.ELEMENTS[kw][1]))
    return out


def magic_payloads():
    """Data-set byte strings whose CONTENT looks like something else the library knows: a whole Part-10 file image, a
    'DICM' prefix at offset 128 or 0, a file meta group, a command group, a P-DATA-TF header.  To the DIMSE layer a
    data set is opaque bytes."""
    import struct
    meta = (b'\x02\x00\x00\x00UL\x04\x00' + struct.pack('<I', 28) +
            b'\x02\x00\x10\x00UI\x14\x00' + b'1.2.840.10008.1.2.1\x00')
    body = b'\x08\x00\x18\x00UI\x08\x001.2.3.4\x00' + b'\x10\x00\x10\x00PN\x06\x00DICM^X'
    return [b'\x00' * 128 + b'DICM' + meta + body,
            b'\x41' * 128 + b'DICM' + body * 3,
            b'DICM' + body,
            meta + body,
            b'\x00\x00\x00\x00\x04\x00\x00\x00\x38\x00\x00\x00' + body,
            b'\x04\x00\x00\x00\x00\x10' + body,
            (b'\x08\x00\x08\x00CS\x7c\x00' + b'ORIGINAL\\PRIMARY'.ljust(124, b' ')) + b'DICM' + body]


@st.composite
def data_bytes(draw, max_len=400):
    mode = draw(st.integers(0, 4))
    if mode == 4:
        return draw(st.sampled_from(magic_payloads()))
    if mode == 0:
        return draw(st.sampled_from([None, None, b'']))     # b'' = an empty identifier (encodes to zero bytes)
    n = draw(st.integers(1, max_len))
    pat = draw(st.binary(min_size=1, max_size=16))
    return (pat * (n // len(pat) + 1))[:n]


def message(cf=None, max_data=400):
    cfs = st.just(cf) if cf is not None else st.sampled_from(ALL_CF)
    return cfs.flatmap(lambda c: st.fixed_dictionaries(
        {'cf': st.just(c), 'fields': fields_for(c), 'data': data_bytes(max_data)}))


_BASE = [b'']
_SHIFT = {}


def patterned(n, salt=0):
    """n bytes whose value depends on the offset (so reordering/duplication is visible)."""
    if len(_BASE[0]) < n:
        size = max(n, 1 << 16)
        _BASE[0] = bytes(((i * 7 + (i >> 8)) & 0xFF) for i in range(size))
    salt &= 0xFF
    if salt not in _SHIFT:
        _SHIFT[salt] = bytes((b + salt) & 0xFF for b in range(256))
    return _BASE[0][:n].translate(_SHIFT[salt])


# ------------------------------------------------------------------------------------------

def build_msg(spec, source='bytes', tmpdir=None):
    """Library message object for spec; data set attached as bytes, BytesIO or a real file."""
    from pynetdicom2 import dimsemessages
    cls = dimsemessages.MESSAGE_TYPE[spec['cf']]
    msg = cls()
    for kw, v in spec['fields'].items():
        setattr(msg.command_set, kw, v)
    attach(msg, spec['data'], source, tmpdir)
    return msg


class ShortReads(io.BytesIO):
    """read(n) returns at most a varying number of bytes (5, 1, 11, 3, ... ) when more were asked for."""
    CAPS = (5, 1, 11, 3, 700, 2)

    def __init__(self, data):
        io.BytesIO.__init__(self, data)
        self._k = 0

    def read(self, n=-1):
        if n is None or n < 0:
            return io.BytesIO.read(self)
        cap = self.CAPS[self._k % len(self.CAPS)]
        self._k += 1
        return io.BytesIO.read(self, min(n, cap) if n > 1 else n)


def attach(msg, data, source='bytes', tmpdir=None):
    if data is None:
        msg.data_set = None
    elif source == 'bytes' or not data:
        # (an EMPTY file-like object is outside every property's domain - data sets have length >= 1)
        msg.data_set = bytes(data)
    elif source == 'bytesio':
        msg.data_set = io.BytesIO(bytes(data))
    elif source == 'bytesio-offset':
        # an in-memory file object positioned behind a header of its own (the data set starts at the current position)
        msg.data_set = io.BytesIO(b'\x5A' * 192 + bytes(data))
        msg.data_set.seek(192)
    elif source == 'offset':
        # a real file whose data set starts at the current position, not at 0 (as storage_scu passes a Part-10
        # file positioned behind its meta header)
        fd, path = tempfile.mkstemp(prefix='vf_ds_', dir=tmpdir)
        with os.fdopen(fd, 'wb') as fh:
            fh.write(b'\xA5' * 333 + bytes(data))
        msg.data_set = open(path, 'rb')
        msg.data_set.seek(333)
        os.unlink(path)
    elif source == 'short-reads':
        # a seekable RAW stream (pipe-like, network file system): read(n) may return FEWER than n bytes although more
        # follow - legal for any io.RawIOBase; only an empty result means end of data
        msg.data_set = ShortReads(bytes(data))
    elif source == 'gzip':
        # a seekable file object whose descriptor belongs to a DIFFERENT byte stream than read() delivers
        import gzip
        fd, path = tempfile.mkstemp(prefix='vf_ds_', dir=tmpdir)
        with os.fdopen(fd, 'wb') as fh:
            with gzip.GzipFile(fileobj=fh, mode='wb', mtime=0) as gz:
                gz.write(bytes(data))
        msg.data_set = gzip.open(path, 'rb')
        os.unlink(path)
    else:
        fd, path = tempfile.mkstemp(prefix='vf_ds_', dir=tmpdir)
        with os.fdopen(fd, 'wb') as fh:
            fh.write(data)
        msg.data_set = open(path, 'rb')
        os.unlink(path)       # the open handle keeps the content; nothing is left behind


def provoke_encode_failure():
    """What an application does now and then: hands the library a data set that cannot be encoded (a value out of
    range for its VR), gets the error, and carries on in the same thread.  Returns True if the library did raise."""
    import warnings
    from pydicom.dataset import Dataset
    from pynetdicom2 import dsutils
    ds = Dataset()
    ds.PatientName = 'GHOST^PATIENT'
    ds.PatientID = 'left-over'
    with warnings.catch_warnings():
        warnings.simplefilter('ignore')
        ds.Rows = 70000
        try:
            dsutils.encode(ds, False, True)
        except Exception:
            return True
    return False


def expected_fields(spec, has_data=None):
    """element number -> value the wire must carry for this spec (group length excluded)."""
    out = {}
    for kw in class_keywords(spec['cf']):
        out[refcmd.ELEMENTS[kw][0]] = spec['fields'].get(kw)
    out[0x0100] = spec['cf']
    if has_data is None:
        has_data = bool(spec['data'])
    out[0x0800] = None if has_data is None else (0x0001 if has_data else refcmd.NO_DATASET)
    return out


class RecordingDul(object):
    """lazy=True models a slow provider thread: queued generators are consumed only by drain()."""

    def __getattr__(self, name):
        if name.startswith('__'):
            raise AttributeError(name)
        from .common import HarnessError
        raise HarnessError('recording provider has no %r: it does not fit this tree' % (name,))

    def __init__(self, lazy=False):
        self.sent = []
        self.lazy = lazy
        self.accepted_contexts = {}
        self.inbox = []          # what receive() hands to the association next: (message, context id) or a PDU

    def receive(self, timeout=None):
        from pynetdicom2 import exceptions
        if not self.inbox:
            raise exceptions.DCMTimeoutError()
        return self.inbox.pop(0)

    def send(self, primitive):
        if getattr(primitive, 'pdu_type', None) == 4:
            # a single P-DATA-TF handed over as it is: the real provider transmits it just like a one-PDU message
            self.sent.append([primitive])
        elif hasattr(primitive, 'pdu_type') or self.lazy:
            self.sent.append(primitive)
        else:
            self.sent.append(list(primitive))

    def drain(self):
        self.sent = [p if hasattr(p, 'pdu_type') or isinstance(p, list) else list(p) for p in self.sent]


_MAKE_LOCK = __import__('threading').Lock()
_AE = []


def make_assoc(max_pdu_length, lazy=False):
    """A real asceprovider.Association (built by its own constructor) whose provider is a recorder (no thread, no
    socket)."""
    import types
    from pynetdicom2 import asceprovider, applicationentity
    rec = RecordingDul(lazy)
    with _MAKE_LOCK:
        if not _AE:
            _AE.append(applicationentity.ClientAE('VERIF'))
        saved = asceprovider.dulprovider
        asceprovider.dulprovider = types.SimpleNamespace(DULServiceProvider=lambda *a, **k: rec)
        try:
            assoc = asceprovider.Association(_AE[0], None, max_pdu_length)
        finally:
            asceprovider.dulprovider = saved
    assoc.association_established = True
    return assoc


def split_fragments(pdus):
    """[(context id, control header, payload)] for every PDV of a list of library P-DATA-TF."""
    out = []
    for p in pdus:
        for v in p.data_value_items:
            dv = bytes(v.data_value)
            out.append((v.context_id, dv[0] if dv else None, dv[1:]))
    return out


def ref_fragments(command_bytes, data, max_pdu, pc_id):
    """Reference fragmentation: PDV dicts {'id','data'} (control header + payload), one fragment
    per PDV, payload size max_pdu-6, command first."""
    size = max(1, max_pdu - 6)
    out = []
    chunks = [command_bytes[i:i + size] for i in range(0, len(command_bytes), size)]
    for i, c in enumerate(chunks):
        out.append({'id': pc_id, 'data': bytes([3 if i == len(chunks) - 1 else 1]) + c})
    if data:
        chunks = [data[i:i + size] for i in range(0, len(data), size)]
        for i, c in enumerate(chunks):
            out.append({'id': pc_id, 'data': bytes([2 if i == len(chunks) - 1 else 0]) + c})
    return out
